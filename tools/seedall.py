#!/usr/bin/env python3
"""Regression over all stored seeded changes: each must still be caught by the check of the property it breaks."""
import glob, json, os, subprocess, sys
only = sys.argv[1:]
res = []
for d in sorted(glob.glob("/verif/seeded/*")):
    m = json.load(open(os.path.join(d, "meta.json")))
    if only and not any(o in m["id"] for o in only):
        continue
    r = subprocess.run(["/verif/tools/seedrun.py", os.path.join(d, "patch.diff"), "-", m["breaks_property"]], capture_output=True, text=True)
    line = [l for l in r.stdout.splitlines() if l.startswith("[")]
    note = "   (expected: " + m["disposition"][:60] + "...)" if m.get("disposition") else ""
    print(m["id"], "->", (line[0] if line else r.stdout[-200:]) + note, flush=True)
