#!/bin/sh
# kill leftover check/shard/mutant processes (dev helper)
pkill -f 'gv[.]run' ; pkill -f 'gv[.]shard'; pkill -f 'try[m]ut'; sleep 0.5
rm -rf /verif/.work /tmp/gvmut-*
exit 0
