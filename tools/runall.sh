#!/bin/sh
# dev helper: run every check's quick (or $1) tier sequentially, print one line each
tier=${1:-quick}; shift
for p in C01 C02 C03 C04 C05 C06 C07 C08 C09 C10 C11 C12 C13 C14 C15 C16 C17 C18 C19 C20; do
  s=$(date +%s); out=$(./check $p --tier $tier "$@" 2>&1); rc=$?; e=$(date +%s)
  echo "$p rc=$rc $((e-s))s $(echo "$out" | grep -v KNOWN-FINDING | tail -1 | cut -c1-160) [known: $(echo "$out" | grep -c KNOWN-FINDING)]"
done
