#!/usr/bin/env python3
"""Regenerates MANIFEST.json from the per-property modules that exist, and validates it."""
import importlib
import json
import os
import sys

VERIF = os.path.dirname(os.path.dirname(os.path.abspath(__file__)))
sys.path.insert(0, VERIF)

ALL = [f"C{i:02d}" for i in range(1, 21)]
BASELINE = ("cd /repo && env -u GRAPHTAGE_VERIF /venv/bin/python -m pytest -ra -q -p no:cacheprovider "
            "--timeout=900 --continue-on-collection-errors")


def main():
    checks, na = [], []
    for pid in ALL:
        path = os.path.join(VERIF, "gv", "props", pid.lower() + ".py")
        if not os.path.exists(path):
            na.append({"property_id": pid, "reason": "check not built yet in this round (planned in DESIGN.md section 4)"})
            continue
        mod = importlib.import_module(f"gv.props.{pid.lower()}")
        if getattr(mod, "NOT_CLAIMED", None):
            na.append({"property_id": pid, "reason": mod.NOT_CLAIMED})
            continue
        checks.append({
            "property_id": pid,
            "quick_cmd": f"./check {pid} --tier quick",
            "thorough_cmd": f"./check {pid} --tier thorough",
            "evidence_file": f"/verif/evidence/{pid}.json",
            "replay_cmd_template": f"./check {pid} --replay {{path}}",
            "engine": "gv",
            "level_claimed": {
                "category": getattr(mod, "LEVEL", "exploration"),
                "text": mod.LEVEL_TEXT,
                "design_ref": f"DESIGN.md section 4 ({pid})",
            },
            "level_note": mod.LEVEL_NOTE,
            "technique": mod.TECHNIQUE,
        })
    man = {
        "version": 1,
        "setup_cmd": "./setup.sh",
        "hooks": {
            "guard": "GRAPHTAGE_VERIF",
            "enable": "no source hooks: every monitor is attached from the harness by patching classes/functions "
                      "after import (gv/monitors.py); checks import graphtage from /repo's working tree (VP_REPO)",
            "baseline_off_cmd": BASELINE,
            "source_commits": [],
            "add_only": True,
        },
        "engines": [{
            "name": "gv", "path": "/verif/gv",
            "serves_properties": [c["property_id"] for c in checks],
            "kind_free_text": "runtime monitoring: generated / exhaustive / fault-injected workloads executed on the real "
                              "code in parallel shard processes; monitors = wrappers on the real methods, reference "
                              "models in lock-step, observers at the CLI boundary; three-valued verdicts",
        }],
        "checks": checks,
        "not_applicable": na,
        "notes": "exit 0 held / exit 1 VIOLATION / exit 2 INCONCLUSIVE. known_findings.json lists recorded defects "
                 "(open) and repaired ones (fixed). VERIF_SEED / --seed reseeds every generator; VERIF_TIER or --tier.",
    }
    # (kept even when empty: all 20 properties are claimed)
    out = os.path.join(VERIF, "MANIFEST.json")
    with open(out, "w") as f:
        json.dump(man, f, indent=1)
        f.write("\n")
    try:
        import jsonschema
        jsonschema.validate(man, json.load(open("/root/.vp/MANIFEST.schema.json")))
        print(f"MANIFEST.json valid: {len(checks)} checks, {len(na)} not claimed")
    except ImportError:
        print("jsonschema not importable; wrote MANIFEST.json unvalidated")


if __name__ == "__main__":
    main()
