#!/usr/bin/env python3
"""Dev-time: confirm a seeded change and run checks against it.

  tools/seedrun.py <patch.diff> <demo.py|-> <PROP[,PROP...]> [--tests] [--tier quick] [--seed N]

Copies /repo's working tree to a scratch directory, runs the demonstration against the unchanged copy (must exit 0),
applies the patch (patch -p1), runs the demonstration again (must exit non-zero), optionally the repository's own
tests (must pass), then the listed checks with --repo pointing at the scratch copy.  Removes the scratch copy."""
import os, shutil, subprocess, sys, tempfile, time
patch, demo, props = sys.argv[1:4]
rest = sys.argv[4:]
tests = "--tests" in rest
rest = [a for a in rest if a != "--tests"]
tmp = tempfile.mkdtemp(prefix="gvseed-", dir="/tmp")
rc_all = 0
try:
    dst = os.path.join(tmp, "repo")
    shutil.copytree("/repo", dst, ignore=shutil.ignore_patterns(".git", "__pycache__", "docs", "bindist", "*.egg-info"))
    env = {**os.environ, "PYTHONPATH": dst}
    if demo != "-":
        # run a copy: the script's own directory is sys.path[0] and must not be the author's (patched) worktree
        local_demo = os.path.join(tmp, "demo.py")
        shutil.copy(demo, local_demo)
    def run_demo():
        if demo == "-":
            return None
        r = subprocess.run(["/venv/bin/python", local_demo], cwd=tmp, env=env, capture_output=True, text=True, timeout=900)
        return r.returncode, (r.stdout + r.stderr).strip().splitlines()[-3:]
    before = run_demo()
    r = subprocess.run(["patch", "-p1", "-s", "-i", os.path.abspath(patch)], cwd=dst, capture_output=True, text=True)
    if r.returncode != 0:
        print("PATCH DOES NOT APPLY:", r.stdout[-400:], r.stderr[-400:]); sys.exit(3)
    after = run_demo()
    print("demo unchanged tree:", before)
    print("demo with the change:", after)
    if tests:
        t0 = time.time()
        r = subprocess.run(["/venv/bin/python", "-m", "pytest", "-q", "-p", "no:cacheprovider", "--timeout=900"], cwd=dst, env=env,
                           capture_output=True, text=True)
        print("repo tests with the change:", (r.stdout.strip().splitlines() or ["?"])[-1], f"({time.time()-t0:.0f}s)")
    for prop in ([] if props == "-" else props.split(",")):
        t0 = time.time()
        r = subprocess.run(["/verif/check", prop, "--repo", dst] + rest, capture_output=True, text=True)
        lines = [l for l in r.stdout.splitlines() if not l.startswith("KNOWN-FINDING")]
        verdict = {0: "MISSED (exit 0)", 1: "CAUGHT (VIOLATION)", 2: "INCONCLUSIVE"}.get(r.returncode, f"rc={r.returncode}")
        print(f"[{prop}] {verdict} in {time.time()-t0:.0f}s")
        for l in lines[-3:]:
            print("     ", l[:260])
finally:
    shutil.rmtree(tmp, ignore_errors=True)
