#!/usr/bin/env python3
"""Dev-time self-test: tools/trymut.py <PROP[,PROP..]> <file under graphtage/> <old> <new> [--tier quick] [--tests]
Copies /repo to a scratch dir, replaces the first occurrence of <old> by <new>, runs the checks with
VP_REPO pointing at the copy, removes the copy.  Expect VIOLATION."""
import os, shutil, subprocess, sys, tempfile
props, rel, old, new = sys.argv[1:5]
rest = sys.argv[5:]
run_tests = "--tests" in rest
rest = [a for a in rest if a != "--tests"]
tmp = tempfile.mkdtemp(prefix="gvmut-", dir="/tmp")
try:
    dst = os.path.join(tmp, "repo")
    shutil.copytree("/repo", dst, ignore=shutil.ignore_patterns(".git", "__pycache__", "docs", "bindist"))
    p = os.path.join(dst, "graphtage", rel)
    s = open(p).read()
    assert s.count(old) >= 1, "pattern not found"
    open(p, "w").write(s.replace(old, new, 1))
    if run_tests:
        r = subprocess.run(["/venv/bin/python", "-m", "pytest", "-q", "-x", "-p", "no:cacheprovider", "--timeout=900"],
                           cwd=dst, env={**os.environ, "PYTHONPATH": dst}, capture_output=True, text=True)
        print("repo tests:", r.stdout.strip().splitlines()[-1] if r.stdout.strip() else r.stderr[-300:])
    for prop in props.split(","):
        r = subprocess.run(["/verif/check", prop, "--repo", dst] + rest, capture_output=True, text=True)
        lines = [l for l in r.stdout.splitlines() if not l.startswith("KNOWN-FINDING")]
        print(f"[{prop}] rc={r.returncode}", *[l[:300] for l in lines[-3:]], sep="\n   ")
        if r.stderr.strip():
            print("   stderr:", r.stderr.strip()[-300:])
finally:
    shutil.rmtree(tmp, ignore_errors=True)
