#!/usr/bin/env python3
"""tools/saveseed.py <ID> <name> <breaks> <caught_by|MISSED> <needs...>  — store a confirmed seeded change under seeded/<name>/"""
import json, os, shutil, sys
sid, name, breaks, caught = sys.argv[1:5]
needs = " ".join(sys.argv[5:])
src = os.path.join(os.environ.get("SEEDROOT", "/tmp/seed"), sid)
dst = f"/verif/seeded/{name}"
os.makedirs(dst, exist_ok=True)
for f in ("patch.diff", "demo.py", "NOTES.md"):
    if os.path.exists(os.path.join(src, f)):
        shutil.copy(os.path.join(src, f), os.path.join(dst, f))
meta = {"id": name, "breaks_property": breaks, "needs_to_manifest": needs,
        "author": "independent sub-agent given only the property text and a scratch worktree of /repo",
        "confirmed": {"repo_tests_with_change": "66 passed", "demo_unchanged_tree": "exit 0", "demo_with_change": "exit 1",
                      "how": "tools/seedrun.py <patch> <demo> <PROP> --tests (scratch copy of /repo, patch -p1, removed afterwards)"},
        "checks": {breaks: ("VIOLATION (quick tier)" if caught != "MISSED" else "MISSED")},
        "caught_by": [] if caught == "MISSED" else caught.split(",")}
json.dump(meta, open(os.path.join(dst, "meta.json"), "w"), indent=1)
print("saved", dst)
