#!/bin/sh
# Offline setup: install icontract (runtime contracts used by the C04/C16 monitors) from the local
# wheelhouse into the git-ignored .deps, then smoke-test that the code under test imports from /repo.
set -e
cd "$(dirname "$0")"
export PIP_NO_INDEX=1 PIP_DISABLE_PIP_VERSION_CHECK=1
if [ ! -d .deps/icontract ]; then
  /venv/bin/python -m pip install --quiet --no-index --find-links /opt/veriftools/wheels --target .deps icontract
fi
PYTHONPATH="$(pwd)" /venv/bin/python -B - <<'PY'
from gv import boot
g = boot.boot()
import icontract
print("setup ok: graphtage from", g.__file__, "icontract", icontract.__version__)
PY
