"""Process bootstrap for every shard: put the code under test first on sys.path, third-party
monitor libraries last, and neutralise the two pieces of global state that make in-process
driving differ from a fresh process (colorama stream wrapping, tqdm noise)."""
import os
import sys

VERIF = os.path.dirname(os.path.dirname(os.path.abspath(__file__)))
REPO = os.path.realpath(os.environ.get("VP_REPO", "/repo"))
DEPS = os.path.join(VERIF, ".deps")

_booted = False


def boot(real_colorama: bool = False, quiet: bool = True):
    global _booted
    if _booted:
        return sys.modules["graphtage"]
    if REPO in sys.path:
        sys.path.remove(REPO)
    sys.path.insert(0, REPO)
    if DEPS not in sys.path:
        sys.path.append(DEPS)  # at the END: its bundled typing_extensions must not shadow the repo's
    import graphtage  # noqa
    here = os.path.realpath(graphtage.__file__)
    if not here.startswith(REPO + os.sep):
        raise RuntimeError(f"graphtage imported from {here}, expected under {REPO}")
    import graphtage.printer as P
    if not real_colorama:
        P.colorama.init = lambda *a, **k: None
    P.DEFAULT_PRINTER.quiet = quiet
    from gv import monitors
    monitors.install_warning_trap()
    _booted = True
    return graphtage


def ensure_deps():
    """icontract lives in the git-ignored .deps; (re)install it offline when absent."""
    marker = os.path.join(DEPS, "icontract")
    if os.path.isdir(marker):
        return
    import subprocess
    subprocess.run(
        [sys.executable, "-m", "pip", "install", "--quiet", "--no-index", "--find-links",
         "/opt/veriftools/wheels", "--target", DEPS, "icontract"],
        check=True, stdout=subprocess.DEVNULL, stderr=subprocess.DEVNULL,
        env={**os.environ, "PIP_NO_INDEX": "1", "PIP_DISABLE_PIP_VERSION_CHECK": "1"})
