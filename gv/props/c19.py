"""C19 — Match expressions cannot reach private attributes.

Monitors: (1) Tripwire — sentinel objects whose __getattribute__ (instance level) and whose metaclass
(class level) log every read of a name that starts with an underscore, together with the nearest
Python frame; only the instance-level __class__ read that isinstance() performs is allowed.
(2) NameResolution — a wrapper on Expression.get_value compares every resolved identifier with the
environment and with a hard-coded copy of the documented whitelist."""
import builtins
import random
import sys

from gv import core

ID = "C19"
LEVEL = "exploration"
RULE = ("expression programs: grammar-generated (member chains over public / private / dunder names, calls, indexing, list/tuple "
        "literals, every operator, non-ASCII spellings of member names (compatibility forms of '_' and of letters, ignorable code "
        "points, case variants), every whitelisted builtin, every Python builtin name as a bare identifier, format-style string "
        "literals that name private fields) and mutations of the test-suite's expressions, evaluated over environments as "
        "MatchIf/MatchUnless build them (tripwired sentinels standing for nodes, plain containers holding sentinels, format strings "
        "naming private fields); every parsed expression is evaluated three times in a row, over all three environments; "
        "non-trivial = the program parses and mentions an underscore name or a non-whitelisted builtin; distinct = distinct program")
ASSUMPTIONS = ["evaluation exceptions are expected and ignored: only attribute reads and name resolutions are judged",
               "implicit special-method use by the interpreter (len(), iteration, operators) bypasses attribute lookup and is not a 'read'",
               "a logged read is judged when the attribute name occurs in the program text or in a Unicode-normalised / case-folded / "
               "ignorable-stripped form of it, or is one of the sentinel's own secret names (user-directed read); the interpreter's own "
               "probing of __origin__/__qualname__/... (GenericAlias repr) is counted, not judged",
               "documented whitelist = the list in the module docstring of graphtage/expressions.py, copied into this check"]
MINIMUMS = {"quick": {"re_evaluations_of_a_parsed_expression": 80000, "programs_evaluated": 40000, "programs_with_underscore_names": 20000, "identifiers_resolved": 30000,
                      "tripwire_armed_member_access": 8000, "format_calls_with_private_fields": 300,
                      "programs_with_non_ascii_spellings_of_names": 3000},
            "thorough": {"re_evaluations_of_a_parsed_expression": 1400000, "programs_evaluated": 700000, "programs_with_underscore_names": 250000, "identifiers_resolved": 700000,
                         "tripwire_armed_member_access": 150000, "programs_with_non_ascii_spellings_of_names": 50000}}

WHITELIST = ["abs", "all", "any", "ascii", "bin", "bool", "bytearray", "bytes", "chr", "complex", "dict", "enumerate", "filter",
             "float", "frozenset", "hash", "hex", "id", "int", "iter", "len", "list", "map", "max", "min", "oct", "ord", "round",
             "set", "slice", "sorted", "str", "sum", "tuple", "zip"]
PRIVATE = ["_secret", "__mangled", "_Sentinel__mangled", "__class__", "__dict__", "__init__", "__subclasses__", "__globals__",
           "__mro__", "__bases__", "__getattribute__", "__reduce__", "_x", "__", "_", "__module__", "__doc__", "__call__",
           "__self__", "__func__", "__builtins__", "__import__", "__code__"]
PUBLIC = ["pub", "child", "meth", "name", "items", "keys", "values", "format", "format_map", "upper", "join", "count", "real",
          "imag", "mro", "get", "append", "copy", "index", "startswith", "encode", "bit_length", "denominator", "value", "key"]

# spellings that are not the ASCII name but may be folded into it by an implementation (compatibility forms of "_" and of letters,
# ignorable code points, combining marks): a guard that inspects one spelling and a lookup that uses another is the hazard
UNDERSCORE_LOOKALIKES = ["\uff3f", "\ufe33", "\ufe34", "\ufe4d", "\ufe4e", "\ufe4f"]
IGNORABLES = ["\u200b", "\u200c", "\u200d", "\ufeff", "\u00ad", "\u2060"]
NEVER_PROBED_BY_INTERPRETER = {"_secret", "_Sentinel__mangled", "__mangled", "_x"}


def respell(r, name):
    """A non-ASCII spelling of `name` that some normalisation (NFKC/NFKD, casefold, ignorable stripping) maps back to it."""
    y = r.random()
    if y < 0.35 and name.startswith("_"):
        return r.choice(UNDERSCORE_LOOKALIKES) + name[1:]
    if y < 0.5 and "_" in name:
        return "".join(r.choice(UNDERSCORE_LOOKALIKES) if c == "_" else c for c in name)
    if y < 0.65:
        return r.choice(IGNORABLES) + name
    if y < 0.75 and len(name) > 1:
        return name[0] + r.choice(IGNORABLES) + name[1:]
    if y < 0.9:
        i = r.randrange(len(name))
        c = name[i]
        if "a" <= c <= "z" or "A" <= c <= "Z":
            return name[:i] + chr(ord(c) - 0x20 + 0xff00) + name[i + 1:]     # fullwidth letter
        return name[:i] + (r.choice(UNDERSCORE_LOOKALIKES) if c == "_" else c) + name[i + 1:]
    return name.upper() if r.random() < 0.5 else name.swapcase()


def folded(prog):
    import unicodedata
    out = {prog}
    for form in ("NFKC", "NFKD", "NFC", "NFD"):
        out.add(unicodedata.normalize(form, prog))
    stripped = "".join(c for c in prog if c not in IGNORABLES)
    out.add(stripped)
    out.add(unicodedata.normalize("NFKC", stripped))
    out |= {x.casefold() for x in list(out)} | {x.lower() for x in list(out)}
    return out


LOG = []
ARMED = [False]
CALLS = [0]


def _frame():
    f = sys._getframe(2)
    while f is not None and f.f_code.co_filename == __file__:
        f = f.f_back
    if f is None:
        return "?"
    import os
    return f"{os.path.basename(f.f_code.co_filename)}:{f.f_code.co_name}"


class Wired(type):
    def __getattribute__(cls, name):
        if ARMED[0] and name.startswith("_"):
            LOG.append(("class", name, _frame()))
        return type.__getattribute__(cls, name)


def make_sentinel_class():
    class Sentinel(metaclass=Wired):
        _secret = "class-level secret"
        pub = None

        def __init__(self, depth=0):
            d = object.__getattribute__(self, "__dict__")
            d["_secret"] = "TOP SECRET"
            d["_Sentinel__mangled"] = "MANGLED"
            d["name"] = "sentinel"
            d["value"] = 7
            if depth < 2:
                d["child"] = Sentinel(depth + 1)
                d["pub"] = d["child"]

        def __getattribute__(self, name):
            if ARMED[0] and name.startswith("_") and name != "__class__":
                LOG.append(("instance", name, _frame()))
            return object.__getattribute__(self, name)

        def meth(self, *a):
            CALLS[0] += 1
            if CALLS[0] > 20000:
                raise RuntimeError("sentinel method called too often in one evaluation")
            return self

        def __call__(self, *a):
            # (bounded: `all(iter(from, 'x'))` calls its first argument until it returns 'x', i.e. for ever)
            CALLS[0] += 1
            if CALLS[0] > 20000:
                raise RuntimeError("sentinel called too often in one evaluation")
            return self

        def __len__(self):
            return 2

        def __iter__(self):
            return iter((1, 2))

        def __getitem__(self, k):
            if isinstance(k, int) and not (-3 < k < 3):
                raise IndexError(k)
            return self

        def __bool__(self):
            return True

        def __hash__(self):
            return 17

        def __eq__(self, o):
            return o is self

        def __lt__(self, o):
            return False

        def __add__(self, o):
            return self
        __radd__ = __sub__ = __mul__ = __rmul__ = __and__ = __or__ = __xor__ = __add__

        def __repr__(self):
            return "<sentinel>"

        def __format__(self, spec):
            return "<sentinel>"
    return Sentinel


class WiredStr(str):
    """A string whose attribute reads are observable (literals and plain strings are not): member access on a *string* receiver
    goes through the same guard as on any other object."""
    def __getattribute__(self, name):
        if ARMED[0] and name.startswith("_") and name != "__class__":
            LOG.append(("string-instance", name, _frame()))
        return str.__getattribute__(self, name)


_S = {}


def env(kind):
    if "cls" not in _S:
        _S["cls"] = make_sentinel_class()
    S = _S["cls"]
    s = S()
    if kind == "nodes":          # as MatchIf builds it: the two nodes themselves
        return {"from": s, "to": S()}
    if kind == "formats":
        # names bound to *format strings* that name private fields (a string node's value, as MatchUnless passes it) next to
        # sentinels: `from.format(to)` has a str receiver here and a sentinel receiver in the other environments
        return {"from": WiredStr("{0._secret}{0.__class__}"), "to": s, "s": WiredStr("{0._secret}"), "d": {"k": "{0._Sentinel__mangled}"},
                "lst": [WiredStr("{0.__dict__}"), s], "n": 3, "t": s}
    # as MatchUnless builds it: plain values (here holding sentinels so that reads stay observable)
    return {"from": {"k": s, "n": 5, "t": WiredStr("text")}, "to": [s, 1, WiredStr("x")], "s": s, "d": {"k": s}, "lst": [s, s], "n": 3,
            "t": WiredStr("abc{0._secret}")}


# ---------------------------------------------------------------------------------------------
# program generator
# ---------------------------------------------------------------------------------------------
BIN_OPS = ["*", "/", "//", "%", "+", "-", "<<", ">>", "in", "<", ">", "<=", ">=", "==", "!=", "&", "^", "|", "and", "or"]
UN_OPS = ["+", "-", "not ", "~"]
FMT_STRINGS = ["'{0._secret}'", "'{0.pub._secret}'", "'{0.__class__}'", "'{0.__class__.__mro__}'", "'{0[0]._secret}'",
               "'{k._secret}'", "'{0.__dict__}'", "'{0._Sentinel__mangled}'", "'{0.name}'", "'{0}'", "'{0.child.name}'",
               "'{0:{1._secret}}'", "'{0:>{1._secret}}'", "'{1:{0.__class__}}'", "'{0:{2.pub._secret}}'", "'{k:{k._secret}}'", "'{0.__init__.__globals__}'", "'{0!r}'", "\"{0._secret}\""]
OTHER_BUILTINS = [n for n in dir(builtins) if not n.startswith("_") and n not in WHITELIST]
TEST_SUITE = ["foo[(bar + 10) * 2]", "foo.bar", "(foo.bar)", "foo[1]", "a.b[c](d, e)", "[1, 2, 3]", "(1, 2)", "1 + 2 * 3",
              "-a", "not a", "a if b", "max(1, 2)", "len(lst)", "str(n) + 'x'", "from.name == to.name", "from['k'] == to[0]",
              "a ? b : c", "'a' in 'abc'", "lst[0].name", "d['k'].pub.name"]


def atom(r, names):
    x = r.random()
    if x < 0.35:
        return r.choice(names)
    if x < 0.5:
        return r.choice(WHITELIST)
    if x < 0.58:
        return r.choice(OTHER_BUILTINS + ["getattr", "vars", "type", "eval", "exec", "open", "__import__", "globals", "locals",
                                          "object", "super", "dir", "format", "setattr", "compile", "input", "breakpoint"])
    if x < 0.7:
        return str(r.choice([0, 1, 2, 3, 10, 64]))
    if x < 0.74:
        return r.choice(["1.5", "0.25"])
    if x < 0.88:
        return r.choice(FMT_STRINGS)
    return r.choice(["'abc'", "''", "'k'", "\"x\"", "'_secret'", "'__class__'"])


def expr(r, names, depth=0):
    x = r.random()
    if x < 0.03:
        # str.format / format_map reached through a *name* (whether the receiver is a string depends on the environment the
        # expression is evaluated in, not on the program text)
        recv = r.choice(names) if r.random() < 0.7 else f"{r.choice(names)}[{r.choice(['0', '1', chr(39) + 'k' + chr(39)])}]"
        return f"{recv}.{r.choice(['format', 'format', 'format_map'])}({', '.join(r.choice(names) for _ in range(r.randint(1, 2)))})"
    if x < 0.06:
        # a format string literal formatted with one to three arguments (fields nested in a format spec need the later ones)
        args = ", ".join(r.choice(names + ["'x'", "3"]) for _ in range(r.randint(1, 3)))
        how = r.random()
        if how < 0.6:
            return f"{r.choice(FMT_STRINGS)}.format({args})"
        if how < 0.8:
            return f"str.format({r.choice(FMT_STRINGS)}, {args})"
        return f"{r.choice(FMT_STRINGS)}.format_map({r.choice(names)})"
    if depth >= 4 or x < 0.22:
        return atom(r, names)
    if x < 0.50:      # member chain
        base = expr(r, names, depth + 1)
        n = r.randint(1, 3)
        def member():
            name = r.choice(PRIVATE) if r.random() < 0.45 else r.choice(PUBLIC)
            if r.random() < 0.12:
                name = respell(r, name)
            y = r.random()
            # spellings of the right operand of '.': bare, spaced, parenthesised (redundant parentheses are dropped by the
            # RPN conversion, so the evaluator sees the same member access)
            if y < 0.7:
                return "." + name
            if y < 0.8:
                return ". " + name
            if y < 0.93:
                return ".(" + name + ")"
            return ".((" + name + "))"
        chain = "".join(member() for _ in range(n))
        return f"{base}{chain}" if base[0] not in "-+~n" else f"({base}){chain}"
    if x < 0.66:      # call
        f = expr(r, names, depth + 1)
        args = ", ".join(expr(r, names, depth + 2) for _ in range(r.randint(0, 3)))
        return f"{f}({args})"
    if x < 0.74:      # index
        return f"{expr(r, names, depth + 1)}[{expr(r, names, depth + 2)}]"
    if x < 0.86:
        return f"{expr(r, names, depth + 1)} {r.choice(BIN_OPS)} {expr(r, names, depth + 1)}"
    if x < 0.90:
        return f"{r.choice(UN_OPS)}{expr(r, names, depth + 1)}"
    if x < 0.95:
        return "[" + ", ".join(expr(r, names, depth + 2) for _ in range(r.randint(0, 3))) + "]"
    if x < 0.98:
        return "(" + ", ".join(expr(r, names, depth + 2) for _ in range(r.randint(2, 3))) + ")"
    return f"{expr(r, names, depth + 1)} ? {expr(r, names, depth + 2)} : {expr(r, names, depth + 2)}"


def mutate_text(r, s):
    ops = r.randint(1, 3)
    for _ in range(ops):
        i = r.randint(0, len(s))
        ins = r.choice(["." + r.choice(PRIVATE), "." + r.choice(PUBLIC), "." + respell(r, r.choice(PRIVATE)), "(" + r.choice(["s", "from", "to", ""]) + ")", "[0]",
                        r.choice(FMT_STRINGS) + ".format(s)", " and ", "_", "__", ".format", r.choice(OTHER_BUILTINS)])
        s = s[:i] + ins + s[i:]
    return s


def plan(tier, seed):
    q = tier == "quick"
    ns, per = (8, 12000) if q else (16, 70000)
    specs = [{"stratum": "full-grammar", "n": per, "k": k, "clean": True, "case_timeout": 10} for k in range(ns)]
    specs.append({"stratum": "bare-builtin-names", "exhaustive": True, "clean": True, "case_timeout": 10})
    return specs


def gen_cases(spec, ctx):
    r = ctx.rng
    if spec.get("exhaustive"):
        for name in sorted(set(dir(builtins)) | {"getattr", "vars", "type", "__import__", "__builtins__"}):
            for prog in (name, f"{name}(s)", f"{name}.pub"):
                yield {"prog": prog, "env": "values"}
        return
    for _ in range(spec["n"]):
        envk = r.choice(["nodes", "values"])
        names = ["from", "to"] if envk == "nodes" else ["from", "to", "s", "d", "lst", "n", "t"]
        if r.random() < 0.15:
            prog = mutate_text(r, r.choice(TEST_SUITE))
        else:
            prog = expr(r, names)
        if spec.get("noformat") and "format" in prog:
            continue
        yield {"prog": prog, "env": envk}


_installed = [False]
_res = {"n": 0, "bad": []}


def setup(ctx):
    if _installed[0]:
        return
    from graphtage import expressions
    orig = expressions.Expression.get_value

    def get_value(token, locals, globals):
        value = orig(token, locals, globals)
        if isinstance(token, expressions.IdentifierToken):
            _res["n"] += 1
            name = token.name
            if name in locals:
                if value is not locals[name]:
                    _res["bad"].append({"kind": "identifier-resolved-to-something-else", "name": name})
            elif name in WHITELIST:
                if value is not getattr(builtins, name):
                    _res["bad"].append({"kind": "whitelisted-name-resolved-to-another-object", "name": name, "got": repr(value)[:80]})
            else:
                _res["bad"].append({"kind": "name-outside-environment-and-whitelist-resolved", "name": name, "got": repr(value)[:80]})
        return value
    expressions.Expression.get_value = staticmethod(get_value)
    _installed[0] = True


def check(case, ctx):
    from graphtage import expressions
    prog = case["prog"]
    diags = []
    try:
        parsed = expressions.parse(prog)
    except BaseException as ex:  # noqa
        if isinstance(ex, (core.CaseTimeout, KeyboardInterrupt)):
            raise
        if ctx is not None:
            ctx.count("programs_rejected_by_parser")
        return []
    # one parsed expression is evaluated for every pair of nodes a comparison looks at (main() parses --match-if / --match-unless
    # once): the same Expression object is therefore evaluated several times here, over environments in which the same names are
    # bound to objects of different kinds; reads are logged across all evaluations
    kinds = [case["env"]] + [k for k in ("nodes", "values", "formats") if k != case["env"]]
    del LOG[:]
    _res["bad"] = []
    n0 = _res["n"]
    outcome = None
    for kind in kinds:
        e = env(kind)
        CALLS[0] = 0
        ARMED[0] = True
        try:
            try:
                parsed.eval(locals=e)
                o = "value"
            except core.CaseTimeout:
                raise
            except BaseException as ex:  # noqa  evaluation errors are expected; only reads count
                o = type(ex).__name__
        finally:
            ARMED[0] = False
        if outcome is None:
            outcome = o
        if ctx is not None:
            ctx.count("evaluations")
            if kind != kinds[0]:
                ctx.count("re_evaluations_of_a_parsed_expression")
    judged = 0
    spellings = folded(prog) if not prog.isascii() else (prog,)
    for where, name, frame in LOG:
        if not any(name in p or name.casefold() in p for p in spellings) and name not in NEVER_PROBED_BY_INTERPRETER:
            # the interpreter's own introspection (e.g. types.GenericAlias.__repr__ probing __origin__ / __qualname__ of its
            # arguments for `tuple[x]`): the name is not chosen by the program, nothing the program asked for is read
            if ctx is not None:
                ctx.count("implicit_interpreter_read_not_judged:" + name)
            continue
        judged += 1
        if judged <= 3:
            diags.append({"kind": "underscore-attribute-read", "level": where, "name": name, "frame": frame, "outcome": outcome})
    diags.extend(_res["bad"][:3])
    if ctx is not None:
        ctx.count("programs_evaluated")
        ctx.count("outcome:" + ("value" if outcome == "value" else "raised"))
        ctx.count("identifiers_resolved", _res["n"] - n0)
        under = "._" in prog or "{0._" in prog or "{k._" in prog or ".(_" in prog or ". _" in prog
        if under:
            ctx.count("programs_with_underscore_names")
        if not prog.isascii():
            ctx.count("programs_with_non_ascii_spellings_of_names")
        if ".format" in prog and ("{0._" in prog or "{k._" in prog or "{0.__" in prog):
            ctx.count("format_calls_with_private_fields")
        if "._" in prog and outcome == "ParseError":
            ctx.count("tripwire_armed_member_access")
        ctx.seen(case, nontrivial=under or any(b in prog for b in ("getattr", "vars", "type", "eval", "__import__", "globals")))
    return diags


def classify(case, diag):
    return None


def shrink_candidates(case):
    p = case["prog"]
    n = len(p)
    for size in (n // 2, n // 4, 8, 3, 1):
        if size < 1:
            continue
        for i in range(0, n - size + 1, max(1, size // 2)):
            yield {"prog": p[:i] + p[i + size:], "env": case["env"]}


def coverage_extra(counters, tier):
    return {"exhaustive_subspaces": "every name in dir(builtins) as a bare identifier, as a call and with a member access"}


LEVEL_TEXT = ("Runtime monitoring of the real expression evaluator with trip-wired sentinel objects (instance- and class-level "
              "__getattribute__ hooks log every underscore-name read and the frame that made it) and a name-resolution monitor on "
              "Expression.get_value that checks every identifier against the environment and a hard-coded copy of the documented "
              "whitelist. Tens of thousands of grammar-generated and mutated programs per run, in both environment shapes.")
LEVEL_NOTE = ("Trusted: the sentinel/tripwire classes and the whitelist copy in gv/props/c19.py. Reads performed implicitly by the "
              "interpreter through type slots are not attribute reads and are not observed.")
TECHNIQUE = "runtime monitor: attribute-read tripwires on sentinel objects + name-resolution wrapper on Expression.get_value"
