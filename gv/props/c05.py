"""C05 — Results do not depend on how the edit API is driven or on status settings.

Monitor: the harness is the client at the public edit boundary.  For one (pair, options) the
canonical driver (TreeNode.diff's own loop) gives a reference signature = nested (edit class,
from-value, to-value, final cost) over the whole script; every other history of public calls
(bounds / tighten_bounds / is_complete / valid / edits consumed / edits abandoned / has_non_zero_cost),
under quiet and non-quiet default printer, with and without colour rendering, must end in the same
signature and must not raise."""
import io
import itertools

from gv import core, families, gen, monitors
from gv.oracle import val
from gv.props.c04 import printer_mode

ID = "C05"
LEVEL = "exploration"
RULE = ("histories = sequences over 7 public edit operations followed by 'refine to the end', x default printer quiet/non-quiet x "
        "colour on/off rendering; exhaustive over all op sequences up to a length bound on 6 fixed pairs (list-of-lists, "
        "dict-in-list, long strings, XML), sampled histories (length <= 10) on generated pairs of every family with random "
        "options; non-trivial = history contains a tighten before a read or an abandoned edits() iterator, on a compound edit; "
        "distinct = distinct (pair, options, history, quiet, colour)")
ASSUMPTIONS = ["signature compares sub-edits of ordered containers in order and of unordered containers as multisets",
               "reference = the signature reached by the canonical driver (the loop of TreeNode.diff) on fresh trees"]
MINIMUMS = {"quick": {"renderings_compared_with_fully_refined_twin": 300, "command_lines_compared_across_status_settings": 400, "histories_judged": 8000, "shape:tighten-tighten": 300, "shape:edits-before-complete": 1000,
                      "shape:abandon-then-resume": 500, "non-quiet": 2000, "colour_renderings": 300},
            "thorough": {"histories_judged": 200000, "shape:tighten-tighten": 20000, "shape:edits-before-complete": 20000,
                         "shape:abandon-then-resume": 10000, "non-quiet": 50000, "colour_renderings": 5000}}

OPS = ["bounds", "tighten", "complete", "valid", "edits", "edits1", "nonzero"]
# the same operations applied to a sub-edit that edits() handed out (the holder of a sub-edit may drive it directly);
# used by the sampled histories only
SUB_OPS = ["sub:bounds", "sub:tighten", "sub:tighten", "sub:edits", "sub:nonzero", "sub:tight"]

FIXED = [
    {"family": "json", "a": [[1, 2, [3]], [4], "abcdef"], "b": [[1, [3, 5]], [4, 6], "abdxef", {"k": 2}], "ds": "auto", "le": "on"},
    {"family": "json", "a": [{"a": [1, 2], "b": "xyz"}, {"c": 3}], "b": [{"a": [2], "bb": "xyzw"}, 7, {"c": 3, "d": [4]}],
     "ds": "auto", "le": "on"},
    {"family": "json", "a": {"k": "the quick brown fox", "l": [1, 2, 3]}, "b": {"k": "the quack brown fix", "m": [1, 3]},
     "ds": "match", "le": "on"},
    {"family": "json", "a": [[{"x": [1, {"y": "abc"}]}], [2, 3]], "b": [[{"x": [1, {"y": "abd", "z": 2}]}], [3]], "ds": "none", "le": "same"},
    {"family": "json", "a": [[2, 3], [4, 5, 6]], "b": [[2], [4, 6], [7]], "ds": "auto", "le": "off"},
    {"family": "xml", "a": ["r", {"a": "b"}, "t", [["c", {}, None, []], ["d", {"k": "v"}, "x", []]]],
     "b": ["r", {"a": "c"}, None, [["d", {"k": "w"}, "xy", []], ["e", {}, None, []]]], "ds": "auto", "le": "on"},
]


def plan(tier, seed):
    q = tier == "quick"
    specs = []
    maxlen = 3 if q else 4
    for i in range(len(FIXED)):
        for qq in (True, False):
            specs.append({"stratum": f"exhaustive-histories-len{maxlen}", "exhaustive": True, "pair": i, "maxlen": maxlen,
                          "quiet": qq, "clean": True, "shrink": False, "shard_timeout": 3000})
    ns, per = (6, 250) if q else (16, 4000)
    for k in range(ns):
        specs.append({"stratum": "sampled-json", "family": "json", "n": per, "k": k, "clean": True})
    for fam in ["basic", "xml", "csv", "plist", "dataclass", "pyobj"]:
        specs.append({"stratum": f"sampled-{fam}", "family": fam, "n": per if not q else 150, "k": 0, "clean": True})
    specs.append({"stratum": "sampled-mset-dup", "family": "mset", "n": 150 if q else 3000, "k": 0, "case_timeout": 10})
    specs.append({"stratum": "rendering-of-edits-left-half-refined-by-diff", "n": 400 if q else 5000, "k": 0, "clean": True,
                  "halfrefined": True})
    for k in range(2 if q else 8):
        specs.append({"stratum": "command-line-status-settings", "n": 120 if q else 1500, "k": k, "clean": True, "cli_status": True,
                      "shrink": False})
    return specs


def gen_cases(spec, ctx):
    r = ctx.rng
    if spec.get("cli_status"):
        # the status settings as a user has them: the same command with status output on (default; real file descriptors or a
        # terminal), with --no-status and with --quiet must print the same thing
        from gv import formats
        for _ in range(spec["n"]):
            t = r.choice(formats.TYPES)
            a, b = formats.gen_pair_for_type(r, t, equal=r.random() < 0.1)
            yield {"cli_status": True, "type": t, "a": a, "b": b, "ds": r.choice(gen.DS), "le": r.choice(gen.LE),
                   "mode": r.choice([[], [], ["-e"], ["-d"], ["-j"], ["--color"]]),
                   "fmt": r.choice([None, None, None, "yaml", "json", "xml", "csv", "plist"])}
        return
    if spec.get("halfrefined"):
        # diff() stops refining as soon as the top-level edit is complete; edits further down may still be ranges whose lower end
        # is 0 (a same-length string replacement under a renamed key, say). What is printed for them must not depend on that.
        for _ in range(spec["n"]):
            def word(n_):
                return "".join(r.choice("abcdefgh") for _ in range(n_))
            n_ = r.randint(3, 8)
            inner_a = {"name": word(n_), "x": r.choice([2, [2, 3], "k"])}
            inner_b = dict(inner_a, name=word(n_))
            if r.random() < 0.4:
                inner_a, inner_b = [inner_a["name"], 2], [inner_b["name"], 2]
            key = word(r.randint(2, 6))
            a = {"id": 7, key: inner_a}
            b = {"id": 7, key + r.choice(["s", "x", "_2"]): inner_b}
            for _k in range(r.randint(0, 2)):
                kk = word(3)
                a[kk] = b[kk] = r.choice([2, "same", [2]])
            if r.random() < 0.3:
                a, b = [a, 2], [b, 2]
            yield {"family": "json", "a": a, "b": b, "ds": r.choice(["auto", "match"]), "le": r.choice(gen.LE),
                   "ops": [r.choice(OPS) for _ in range(r.randint(0, 3))], "k": r.randrange(1 << 16), "quiet": r.random() < 0.5,
                   "colour": r.choice([True, False])}
        return
    if spec.get("exhaustive"):
        base = FIXED[spec["pair"]]
        for n in range(1, spec["maxlen"] + 1):
            for ops in itertools.product(OPS, repeat=n):
                c = dict(base)
                c.update(ops=list(ops), quiet=spec["quiet"], colour=None)
                yield c
        return
    for _ in range(spec["n"]):
        case = families.gen_case(r, spec["family"], prof=gen.CLEAN if spec["family"] == "json" else None)
        for _ in range(6):
            c = dict(case)
            c["ops"] = [r.choice(OPS + SUB_OPS) if r.random() < 0.5 else r.choice(OPS) for _ in range(r.randint(1, 10))]
            c["k"] = r.randrange(1 << 16)
            c["quiet"] = r.random() < 0.5
            c["colour"] = r.choice([None, None, True, False]) if spec["family"] in ("json", "xml", "csv", "plist") else None
            yield c


def sig(e):
    """Script signature: nested (edit class, from value, to value, final cost)."""
    import graphtage
    from graphtage import edits as ge
    b = monitors.tight(e)
    c = (str(b.lower_bound), str(b.upper_bound))
    subs = monitors.sub_edits(e)
    if subs is None:
        to = e.to_node if (e.to_node is not None and not isinstance(e, (ge.Remove, ge.Insert))) else None
        return (type(e).__name__, val(e.from_node), None if to is None else val(to), c)
    ss = [sig(s) for s in subs]
    from gv.oracle import container_kind
    if container_kind(e.from_node) in ("D", "M"):
        ss = sorted(ss, key=repr)
    return (type(e).__name__, c, tuple(ss))


def apply(e, op, k=0):
    from graphtage.tree import CompoundEdit
    if op.startswith("sub:"):
        subs = [x for x in monitors.walk_script(e) if x is not e] if isinstance(e, CompoundEdit) else []
        if not subs:
            return
        target = subs[k % len(subs)]
        if op == "sub:tight":
            monitors.tight(target)
        else:
            apply(target, op[4:])
        return
    if op == "bounds":
        e.bounds()
    elif op == "tighten":
        e.tighten_bounds()
    elif op == "complete":
        e.is_complete()
    elif op == "valid":
        _ = e.valid
    elif op == "edits":
        if isinstance(e, CompoundEdit):
            list(e.edits())
    elif op == "edits1":
        if isinstance(e, CompoundEdit):
            g = iter(e.edits())
            next(g, None)
            del g
    elif op == "nonzero":
        e.has_non_zero_cost()


_ref_cache = {}


def reference(case):
    key = core.jdump({k: case[k] for k in ("family", "a", "b", "ds", "le")})
    if key not in _ref_cache:
        if len(_ref_cache) > 50:
            _ref_cache.clear()
        with printer_mode(True):
            ta, tb = families.build(case)
            e = monitors.full(ta.edits(tb))
            _ref_cache[key] = (sig(e), isinstance(monitors.sub_edits(e), list))
    return _ref_cache[key]


def check_cli_status(case, ctx):
    from gv import formats
    from gv.props.c02 import cli_args
    t = case["type"]
    pa = families.tmpfile(formats.write(t, case["a"]), "-a" + formats.EXT[t])
    pb = families.tmpfile(formats.write(t, case["b"]), "-b" + formats.EXT[t])
    argv = case["mode"] + (["--format", case["fmt"]] if case["fmt"] else []) + cli_args(case) + [pa, pb]
    runs = [("--no-status", monitors.run_main(["--no-status"] + argv)),
            ("default status, real file descriptors", monitors.run_main(argv, real_files=True)),
            ("--quiet", monitors.run_main(["--quiet"] + argv, real_files=True))]
    if "--color" in case["mode"]:
        runs.append(("default status, terminal", monitors.run_main(argv, tty=True)))
    outs = []
    for name, res in runs:
        outs.append((name, ("exc", type(res.exc).__name__) if res.exc is not None else (res.rc, res.out)))
    if ctx is not None:
        ctx.count("command_lines_compared_across_status_settings", len(runs) - 1)
        ctx.seen(case, nontrivial=case["a"] != case["b"])
    ref = outs[0][1]
    for name, o in outs[1:]:
        if o != ref:
            return [{"kind": "output-depends-on-status-setting", "argv": argv[:-2], "setting": name,
                     "with_no_status": repr(ref)[:300], "with_setting": repr(o)[:300]}]
    return []


def check(case, ctx):
    monitors.TRAP.reset()
    diags = []
    if case.get("cli_status"):
        try:
            return check_cli_status(case, ctx)
        except Exception as ex:  # noqa
            return [core.exc_diag("harness-exception", ex)]
    try:
        ref, compound = reference(case)
    except core.Budget as ex:
        return [{"kind": "reference-step-budget", "msg": str(ex)[:200]}]
    except Exception as ex:  # noqa
        return [core.exc_diag("reference-raised", ex)]
    ops = case["ops"]
    try:
        with printer_mode(case.get("quiet", True)):
            ta, tb = families.build(case)
            if case.get("colour") is not None:
                # route through the diff tree and a rendering with/without colour
                import graphtage.printer as gp
                d = ta.diff(tb)
                out = io.StringIO()
                p = gp.Printer(out_stream=out, ansi_color=bool(case["colour"]), quiet=True)
                fmt = _formatter(case["family"])
                try:
                    fmt.print(p, d)
                    p.flush(final=True) if hasattr(p, "flush") else None
                except Exception as ex:  # noqa
                    # whether rendering completes is C13's property; here only "rendering must not change the result"
                    if ctx is not None:
                        ctx.count("render_raised_left_to_C13:" + type(ex).__name__)
                text1 = out.getvalue()
                # the printed script itself must not depend on how far the edits happened to be refined before printing: a second
                # diff tree of the same pair has every edit it carries refined to the end first, and is then printed the same way
                try:
                    ta2, tb2 = families.build(case)
                    d2 = ta2.diff(tb2)
                    for n_ in d2.dfs():
                        for e_ in getattr(n_, "edit_list", None) or ():
                            monitors.full(e_)
                    out2 = io.StringIO()
                    p2 = gp.Printer(out_stream=out2, ansi_color=bool(case["colour"]), quiet=True)
                    fmt.print(p2, d2)
                    if ctx is not None:
                        ctx.count("renderings_compared_with_fully_refined_twin")
                    if out2.getvalue() != text1:
                        diags.append({"kind": "printed-script-depends-on-how-far-edits-were-refined", "as_diffed": text1[:300],
                                      "fully_refined": out2.getvalue()[:300]})
                except core.Budget:
                    raise
                except Exception:  # noqa  (rendering errors are C13's)
                    pass
                top = (getattr(d, "edit_list", None) or [d.edit])[0]
                for i, op in enumerate(ops):
                    apply(top, op, case.get("k", 0) + i)
                got = sig(top)
                if ctx is not None:
                    ctx.count("colour_renderings")
            else:
                e = ta.edits(tb)
                for i, op in enumerate(ops):
                    apply(e, op, case.get("k", 0) + i)
                got = sig(e)
        if got != ref:
            diags.append({"kind": "history-changes-result", "ops": ops, "quiet": case.get("quiet"), "colour": case.get("colour"),
                          "ref": repr(ref)[:300], "got": repr(got)[:300], "ref_cost": _top_cost(ref), "got_cost": _top_cost(got)})
    except core.Budget as ex:
        diags.append({"kind": "step-budget", "ops": ops, "msg": str(ex)[:200]})
    except Exception as ex:  # noqa
        diags.append(core.exc_diag("internal-error", ex, ops=ops, quiet=case.get("quiet")))
    if ctx is not None:
        ctx.count("histories_judged")
        ctx.count("quiet" if case.get("quiet", True) else "non-quiet")
        tt = any(ops[i] == "tighten" and ops[i + 1] == "tighten" for i in range(len(ops) - 1))
        eb = "edits" in ops or "edits1" in ops
        ar = any(ops[i] == "edits1" and any(o in ("tighten", "edits", "nonzero") for o in ops[i + 1:]) for i in range(len(ops)))
        if tt:
            ctx.count("shape:tighten-tighten")
        if eb:
            ctx.count("shape:edits-before-complete")
        if ar:
            ctx.count("shape:abandon-then-resume")
        if any(o.startswith("sub:") for o in ops):
            ctx.count("shape:sub-edit-driven-directly")
        ctx.seen(case, nontrivial=compound and (tt or eb or ar))
    return diags


def _top_cost(s):
    return s[3] if len(s) == 4 else s[1]


def _formatter(family):
    import graphtage.json as gj
    import graphtage.xml as gx
    import graphtage.csv as gc
    import graphtage.plist as gpl
    import graphtage.pydiff as gpd
    return {"xml": gx.XMLFormatter.DEFAULT_INSTANCE, "csv": gc.CSVFormatter.DEFAULT_INSTANCE,
            "plist": gpl.PLISTFormatter.DEFAULT_INSTANCE, "pyobj": gpd.PyDiffFormatter.DEFAULT_INSTANCE,
            "dataclass": gpd.PyDiffFormatter.DEFAULT_INSTANCE}.get(family, gj.JSONFormatter.DEFAULT_INSTANCE)


def classify(case, diag):
    if case.get("family") == "mset":
        dup = any(len(x) != len({core.jdump(v) for v in x}) for x in (case["a"], case["b"]))
        if dup and diag["kind"] in ("reference-step-budget", "step-budget", "history-changes-result"):
            return "multiset-duplicates-collapse"
    return None


def shrink_candidates(case):
    ops = case["ops"]
    for i in range(len(ops)):
        c = dict(case)
        c["ops"] = ops[:i] + ops[i + 1:]
        if c["ops"]:
            yield c
    for c in families.shrink_case(case):
        yield c
    if case.get("colour") is not None:
        c = dict(case)
        c["colour"] = None
        yield c


def coverage_extra(counters, tier):
    n = 3 if tier == "quick" else 4
    return {"exhaustive": True,
            "exhaustive_subspaces": f"all {sum(7 ** i for i in range(1, n + 1))} op sequences of length <= {n} over 7 operations on 6 fixed "
                                    f"pairs x quiet/non-quiet"}


LEVEL_TEXT = ("Runtime monitoring at the public edit boundary: every history of public calls on the real edit, under quiet and "
              "non-quiet default printer and with/without colour rendering of the diff tree, must reach the signature (script + costs) of "
              "the canonical driver and must not raise. All histories up to length 3 (quick) / 4 (thorough) are enumerated on six "
              "fixed pairs; longer random histories are sampled on generated pairs of every tree family.")
LEVEL_NOTE = ("Trusted: the signature function (gv/props/c05.py:sig) and val(). Histories longer than the bound are sampled (<= 10 ops). "
              "Rendering errors of cross-format fallbacks are C13's, not judged here.")
TECHNIQUE = "runtime monitor: client-side history of public edit calls vs canonical-driver signature (exhaustive short + sampled)"
