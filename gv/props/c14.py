"""C14 — The command line agrees with the library and honours its option spellings.

Differential observer in-process: main(argv)'s stdout and return value are compared with the harness's
own composition of the public library calls (get_filetype -> build_tree(options) -> diff ->
formatter.print(Printer(options)) + newline); equivalent spellings must give identical results; an
explicitly given type for either file must be the one used to parse it regardless of the file name."""
import itertools
import os

from gv import core, families, formats, gen, monitors

ID = "C14"
LEVEL = "exploration"
RULE = ("document pairs of every type x type-selection grid {none, --X-TYPE, --X-mime} for both files x file names {correct "
        "extension, .dat, misleading extension} x option aliases (-k / --dict-strategy none, -j / -jl -jd, --from-T / --from-mime) "
        "x build options x modes (default, -e, -d, --format); non-trivial = an explicit type differs from what the file name "
        "suggests, or an alias pair is compared, and the documents differ; distinct = distinct argv + documents")
ASSUMPTIONS = ["the library composition mirrors the documented public API; it is validated byte-for-byte against main() on the plain cases",
               "stderr is not compared"]
MINIMUMS = {"quick": {"colour_flag:--no-color:terminal": 100, "colour_flag:--color:not-a-terminal": 200, "file_on_standard_input:first": 100, "file_on_standard_input:second": 100, "cli_on_a_terminal": 600, "cli_vs_library": 3000, "alias_pairs": 1500, "explicit_type_overrides_name:first": 300,
                      "explicit_type_overrides_name:second": 300},
            "thorough": {"colour_flag:--no-color:terminal": 2000, "colour_flag:--color:not-a-terminal": 4000, "file_on_standard_input:first": 2000, "file_on_standard_input:second": 2000, "cli_on_a_terminal": 12000, "cli_vs_library": 60000, "alias_pairs": 30000, "explicit_type_overrides_name:first": 6000,
                         "explicit_type_overrides_name:second": 6000}}
SELECT = ["none", "flag", "mime"]


def plan(tier, seed):
    q = tier == "quick"
    specs = []
    ns, per = (8, 60) if q else (16, 1200)
    for k in range(ns):
        specs.append({"stratum": "selection-grid", "n": per, "k": k, "clean": True})
    for k in range(2 if q else 8):
        specs.append({"stratum": "aliases", "n": 70 if q else 1200, "k": k, "clean": True})
    return specs


def gen_cases(spec, ctx):
    r = ctx.rng
    st = spec["stratum"]
    if st == "selection-grid":
        for _ in range(spec["n"]):
            ta = r.choice(formats.TYPES)
            # second file: same type, or another data type
            tb = ta if r.random() < 0.5 else (r.choice(formats.DATA_TYPES) if ta in formats.DATA_TYPES else ta)
            a, b = formats.gen_pair_for_type(r, ta, equal=r.random() < 0.15)
            if ta in ("json", "json5", "yaml", "pickle") and tb in ("json", "json5", "yaml", "pickle") and r.random() < 0.12:
                # documents that consist of a single scalar (the root of the tree is a leaf)
                a = r.choice([7, "draft", True, 2.5, "x y", 0])
                b = a if r.random() < 0.2 else r.choice([8, "final", False, 2.75, "x z", "0"])
                if ctx is not None:
                    ctx.count("documents_that_are_a_single_scalar")
            if tb != ta:
                pass     # same data pair, second file written in another format
            for sa, sb in itertools.product(SELECT, repeat=2):
                ea = _guessable_name(r, ta) if sa == "none" else r.choice([formats.EXT[ta], ".dat", _misleading(r, ta)])
                eb = _guessable_name(r, tb) if sb == "none" else r.choice([formats.EXT[tb], ".dat", _misleading(r, tb)])
                yield {"kind": "grid", "ta": ta, "tb": tb, "a": a, "b": b, "sa": sa, "sb": sb, "ea": ea, "eb": eb,
                       "ds": r.choice(gen.DS), "le": r.choice(gen.LE), "mode": r.choice([[], [], ["-e"], ["-d"], ["-j"]]),
                       # colour: left to the default (on exactly when stdout is a terminal), forced on, forced off
                       "color": r.choice([None, None, "--color", "--no-color"])}
        return
    for _ in range(spec["n"]):
        t = r.choice(formats.TYPES)
        a, b = formats.gen_pair_for_type(r, t, equal=r.random() < 0.1)
        yield {"kind": "alias", "ta": t, "tb": t, "a": a, "b": b, "le": r.choice(gen.LE), "mode": r.choice([[], ["-e"], ["-d"]]),
               "fmt": r.choice([None, None, "json", "yaml", "xml"])}


ALT_EXT = {"yaml": [".yml", ".YAML"], "pickle": [".pickle"], "html": [".htm", ".HTML"], "json": [".JSON"], "xml": [".XML"],
           "csv": [".CSV"], "json5": [], "plist": []}


def _guessable_name(r, t):
    """File-name endings from which the type has to be guessed: the usual extension, its registered aliases, other letter case,
    and names with a blank / a non-ASCII letter / a second dot in them."""
    ext = formats.EXT[t]
    x = r.random()
    if x < 0.5:
        return ext
    if x < 0.7 and ALT_EXT.get(t):
        return r.choice(ALT_EXT[t])
    return r.choice([" with blank", "-\u00e9t\u00e9", ".v2.final", "-(1)"]) + ext


def _misleading(r, t):
    others = [e for k, e in formats.EXT.items() if k != t and not (t in ("xml", "html") and k in ("xml", "html"))
              and not (t in ("json", "json5") and k in ("json", "json5"))]
    return r.choice(others)


def files(case):
    pa = families.tmpfile(formats.write(case["ta"], case["a"]), case.get("ea") or formats.EXT[case["ta"]])
    pb = families.tmpfile(formats.write(case["tb"], case["b"]), case.get("eb") or formats.EXT[case["tb"]])
    return pa, pb


def sel_args(which, how, t):
    if how == "none":
        return []
    if how == "flag":
        return [f"--{which}-{t}"]
    return [f"--{which}-mime", formats.mime_of(t)]


def build_opts(case):
    return gen.build_options(case.get("ds", "auto"), case.get("le", "on"))


def library(case, pa, pb, mode, fmt=None, join=(False, False), color=None):
    """The same result composed from the public library API."""
    import graphtage
    import graphtage.printer as gp
    from colorama.ansi import Fore
    ta_mime = formats.mime_of(case["ta"]) if case.get("sa", "none") != "none" else None
    tb_mime = formats.mime_of(case["tb"]) if case.get("sb", "none") != "none" else None
    fa = graphtage.get_filetype(pa, ta_mime)
    fb = graphtage.get_filetype(pb, tb_mime)
    out = monitors.KeepStringIO()
    printer = gp.Printer(out, ansi_color=color, quiet=True, options={"join_lists": join[0], "join_dict_items": join[1]})
    opts = build_opts(case)
    had = False
    try:
        with printer:
            opts.printer = printer
            t1 = fa.build_tree(pa, opts)
            t2 = fb.build_tree(pb, opts)
            formatter = graphtage.FILETYPES_BY_TYPENAME[fmt].get_default_formatter() if fmt else fa.get_default_formatter()
            if mode == ["-e"]:
                for edit in t1.get_all_edits(t2):
                    printer.write(str(edit))
                    printer.newline()
                    had = had or edit.has_non_zero_cost()
            elif mode == ["-d"]:
                for ancestors, edit in t1.get_all_edit_contexts(t2):
                    for i, node in enumerate(ancestors):
                        if node.parent is not None:
                            node.parent.print_parent_context(printer, for_child=node)
                        if i == len(ancestors) - 1:
                            with printer.color(Fore.BLUE):
                                printer.write(" -> ")
                            formatter.print(printer, edit)
                    printer.newline()
                    had = had or edit.has_non_zero_cost()
            else:
                d = t1.diff(t2)
                formatter.print(printer, d)
                had = any(any(e.has_non_zero_cost() for e in n.edit_list) for n in d.dfs())
            printer.write("\n")
    finally:
        printer.close()
    return (1 if had else 0), out.value()


def _noaddr(text):
    """Object addresses in default reprs differ between two trees of the same process; C07 judges whether they may
    appear at all."""
    import re
    return re.sub(r"0x[0-9a-fA-F]{6,}", "0xADDR", text)


def cli_opts(case):
    from gv.props.c02 import cli_args
    return cli_args(case)


def check(case, ctx):
    diags = []
    monitors.TRAP.reset()
    try:
        pa, pb = files(case)
        if case["kind"] == "grid":
            mode = case["mode"]
            join = (True, True) if mode == ["-j"] else (False, False)
            # every other case takes the default user path: status output on, stdout/stderr with real file descriptors
            # a third of the cases the way a user at a terminal runs it: stdout/stderr are (pseudo-)terminals, so colour is on by
            # default; the library side then prints with ansi_color=True
            h = core.case_hash([case["sa"], case["sb"], case["ea"], case["eb"], repr(case["a"])]) % 3
            status_on, tty = h != 1, h == 2
            # a file whose type is given explicitly may also arrive on standard input ('-'): no name to guess from at all
            h2 = core.case_hash([repr(case["b"]), case["sa"], case["sb"], case["ea"]]) % 5
            via_stdin = "first" if (h2 == 0 and case["sa"] != "none") else ("second" if (h2 == 1 and case["sb"] != "none") else None)
            stdin = None
            if via_stdin:
                with open(pa if via_stdin == "first" else pb, "rb") as fh:
                    stdin = fh.read()
                if ctx is not None:
                    ctx.count("file_on_standard_input:" + via_stdin)
            colour = case.get("color")
            argv = ([] if status_on else ["--no-status"]) + ([colour] if colour else []) + sel_args("from", case["sa"], case["ta"]) \
                + sel_args("to", case["sb"], case["tb"]) + mode + cli_opts(case) \
                + ["-" if via_stdin == "first" else pa, "-" if via_stdin == "second" else pb]
            res = monitors.run_main(argv, real_files=status_on, tty=tty, stdin=stdin)
            if ctx is not None and status_on:
                ctx.count("cli_on_a_terminal" if tty else "cli_with_status_output_and_real_fds")
            try:
                lib_colour = {"--color": True, "--no-color": False}.get(colour, True if tty else None)
                if ctx is not None and colour:
                    ctx.count(f"colour_flag:{colour}:{'terminal' if tty else 'not-a-terminal'}")
                lib = library(case, pa, pb, mode if mode != ["-j"] else [], join=join, color=lib_colour)
                lib_exc = None
            except Exception as ex:  # noqa
                lib, lib_exc = None, ex
            if ctx is not None:
                ctx.count("cli_vs_library")
                for which, sel, t, ext in (("first", case["sa"], case["ta"], case["ea"]), ("second", case["sb"], case["tb"], case["eb"])):
                    if sel != "none" and ext != formats.EXT[t]:
                        ctx.count(f"explicit_type_overrides_name:{which}")
                    if sel == "none" and ext != formats.EXT[t]:
                        ctx.count("type_guessed_from_an_unusual_name")
            if res.exc is not None and lib_exc is not None and type(res.exc) is type(lib_exc):
                if ctx is not None:
                    ctx.count("both_raised_same (rendering errors are C13's)")
            elif res.exc is not None or lib_exc is not None:
                diags.append({"kind": "cli-and-library-disagree-on-raising", "argv": argv[:-2],
                              "cli": repr(res.exc)[:200], "library": repr(lib_exc)[:200],
                              "names": [os.path.basename(pa), os.path.basename(pb)]})
            elif (res.rc, _noaddr(res.out)) != (lib[0], _noaddr(lib[1])):
                diags.append({"kind": "cli-output-differs-from-library", "argv": argv[:-2], "rc_cli": res.rc, "rc_lib": lib[0],
                              "cli": res.out[:300], "lib": lib[1][:300], "stderr": res.err[:200],
                              "names": [os.path.basename(pa), os.path.basename(pb)], "types": [case["ta"], case["tb"]]})
            if ctx is not None:
                nt = any(sel != "none" and ext != formats.EXT[t] for sel, t, ext in
                         ((case["sa"], case["ta"], case["ea"]), (case["sb"], case["tb"], case["eb"])))
                ctx.seen(case, nontrivial=nt and case["a"] != case["b"])
        else:
            base = ["--no-status"] + case["mode"] + cli_opts({"ds": "auto", "le": case["le"]})
            if case.get("fmt"):
                base += ["--format", case["fmt"]]
            t = case["ta"]
            pairs = [
                ("-k == --dict-strategy none", base + ["-k"], base + ["--dict-strategy", "none"]),
                ("--no-key-edits == -ds none", base + ["--no-key-edits"], base + ["-ds", "none"]),
                ("-j == -jl -jd", base + ["-j"], base + ["-jl", "-jd"]),
                ("--condensed == --join-lists --join-dict-items", base + ["--condensed"], base + ["--join-lists", "--join-dict-items"]),
                (f"--from-{t} == --from-mime", base + [f"--from-{t}"], base + ["--from-mime", formats.mime_of(t)]),
                (f"--to-{t} == --to-mime", base + [f"--to-{t}"], base + ["--to-mime", formats.mime_of(t)]),
                ("-l == --no-list-edits", ["--no-status"] + case["mode"] + ["-l"], ["--no-status"] + case["mode"] + ["--no-list-edits"]),
                ("-ll == --no-list-edits-when-same-length", ["--no-status"] + case["mode"] + ["-ll"],
                 ["--no-status"] + case["mode"] + ["--no-list-edits-when-same-length"]),
                ("-ds match == --dict-strategy match", base + ["-ds", "match"], base + ["--dict-strategy", "match"]),
                ("-e == --only-edits", ["--no-status", "-e"], ["--no-status", "--only-edits"]),
                ("-d == --edit-digest", ["--no-status", "-d"], ["--no-status", "--edit-digest"]),
                ("-f json == --format json", base + ["-f", "json"] if not case.get("fmt") else base, base + ["--format", "json"] if not case.get("fmt") else base),
                ("-c == --color", base + ["-c"], base + ["--color"]),
                ("-jl == --join-lists", base + ["-jl"], base + ["--join-lists"]),
                ("-jd == --join-dict-items", base + ["-jd"], base + ["--join-dict-items"]),
                ("-m == --match-if", base + ["-m", "from == to"], base + ["--match-if", "from == to"]),
                ("-u == --match-unless", base + ["-u", "from == to"], base + ["--match-unless", "from == to"]),
            ]
            for name, x, y in pairs:
                rx = monitors.run_main(x + [pa, pb])
                ry = monitors.run_main(y + [pa, pb])
                if ctx is not None:
                    ctx.count("alias_pairs")
                ox = ("exc", type(rx.exc).__name__) if rx.exc is not None else (rx.rc, _noaddr(rx.out))
                oy = ("exc", type(ry.exc).__name__) if ry.exc is not None else (ry.rc, _noaddr(ry.out))
                if ox != oy:
                    diags.append({"kind": "equivalent-spellings-differ", "alias": name, "x": repr(ox)[:300], "y": repr(oy)[:300]})
            if ctx is not None:
                ctx.seen(case, nontrivial=case["a"] != case["b"])
    except Exception as ex:  # noqa
        diags.append(core.exc_diag("harness-exception", ex))
    return diags[:4]


def classify(case, diag):
    return None


LEVEL_TEXT = ("Differential runtime monitoring in-process: for every generated invocation the text and return value of the real main() are "
              "compared with the same result composed from the public library calls; seven alias pairs are compared with each "
              "other; the type-selection grid {none, --X-TYPE, --X-mime}^2 is enumerated for every pair with correct, neutral and "
              "misleading file extensions so that an explicit type that is ignored changes the observable result.")
LEVEL_NOTE = ("Trusted: the harness's library composition (validated against main() on the plain cases of the same run). The real-process "
              "plumbing (sys.exit) is observed by C02/C07's subprocess samples.")
TECHNIQUE = "runtime monitor: differential observer main(argv) vs composed library calls + alias equivalence + type-selection grid"
