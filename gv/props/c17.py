"""C17 — Bound-driven search, ordering and separation are correct.

Monitor: instrumented synthetic Bounded items (hidden true value, interval containing it, a
tightening schedule) record every call the real algorithms make on them; results are judged against
min()/sorted() on the hidden values; termination is a logical step budget on those recorded calls."""
import itertools
import random

from gv import core

ID = "C17"
LEVEL = "exploration"
RULE = ("collections of 1..12 interval-valued items (ties, identical intervals, already-definitive items) x tightening schedules "
        "(lower-by-1, upper-by-1, both, alternate, jump, random amounts; mixed per item) x API "
        "{search(), stepped search with bounds read at every step, sort, min_bounded, make_distinct}; exhaustive for <= 3 items "
        "over values {0,1,2}; non-trivial = >= 2 items with at least one overlapping non-definitive pair; distinct = distinct case")
ASSUMPTIONS = ["items tighten soundly: every step keeps the hidden value inside the interval and moves at least one end by >= 1",
               "initial_bounds handed to the search, when given, contain the true minimum (the documented precondition)",
               "step budget = 50*(sum of initial widths + n^2) + 1000 calls; exceeding it is reported as non-termination"]
MINIMUMS = {"quick": {"cases_with_falsy_items": 10000, "api_search": 5000, "api_stepped": 5000, "api_sort": 5000, "api_min": 5000, "api_distinct": 5000,
                      "item_tighten_calls": 100000},
            "thorough": {"api_search": 100000, "api_stepped": 100000, "api_sort": 100000, "api_min": 100000,
                         "api_distinct": 100000, "item_tighten_calls": 2000000}}

APIS = ["search", "stepped", "sort", "min", "distinct"]
SCHEDULES = ["lower1", "upper1", "both1", "alt", "jump", "random"]


class Item:
    """A Bounded object with a hidden true value.  Not part of the code under test."""
    __slots__ = ("v", "lb", "ub", "sched", "rng", "n_tighten", "n_true", "n_bounds", "budget", "toggle", "name")

    def __init__(self, name, v, lb, ub, sched, seed, budget):
        self.name, self.v, self.lb, self.ub, self.sched = name, v, lb, ub, sched
        self.rng = random.Random(seed)
        self.n_tighten = self.n_true = self.n_bounds = 0
        self.budget = budget
        self.toggle = False

    def bounds(self):
        from graphtage.bounds import Range
        self.n_bounds += 1
        self.budget[0] -= 1
        if self.budget[0] < 0:
            raise core.Budget("bounds() call budget exhausted")
        return Range(self.lb, self.ub)

    def tighten_bounds(self):
        self.n_tighten += 1
        self.budget[0] -= 1
        if self.budget[0] < 0:
            raise core.Budget("tighten_bounds() call budget exhausted")
        if self.lb == self.ub:
            return False
        s = self.sched
        lo_room, hi_room = self.v - self.lb, self.ub - self.v
        if s == "jump":
            self.lb = self.ub = self.v
        elif s == "random":
            wide = self.ub - self.lb > 60     # wide intervals: a moving end covers >= half its room (bounded #steps)
            dl = self.rng.randint((lo_room + 1) // 2 if wide else 0, lo_room)
            dh = self.rng.randint((hi_room + 1) // 2 if wide else 0, hi_room)
            if dl == 0 and dh == 0:
                if lo_room and (not hi_room or self.rng.random() < 0.5):
                    dl = 1
                else:
                    dh = 1
            self.lb += dl
            self.ub -= dh
        else:
            want_low = {"lower1": True, "upper1": False, "both1": None, "alt": self.toggle}[s]
            self.toggle = not self.toggle
            if want_low is None:
                if lo_room:
                    self.lb += 1
                if hi_room:
                    self.ub -= 1
            elif (want_low and lo_room) or not hi_room:
                self.lb += 1
            else:
                self.ub -= 1
        self.n_true += 1
        return True

    def __repr__(self):
        return f"Item{self.name}(v={self.v},[{self.lb},{self.ub}],{self.sched})"


class EmptyItem(Item):
    """An item that is falsy, as an edit collection without sub-edits is (len() == 0): being there and being truthy differ."""
    __slots__ = ()

    def __len__(self):
        return 0


def plan(tier, seed):
    specs = []
    nsh = 8 if tier == "quick" else 16
    for k in range(nsh):
        specs.append({"stratum": "exhaustive-le3-values012", "k": k, "of": nsh, "exhaustive": True,
                      "full": True, "shrink": False, "shard_timeout": 3000, "case_timeout": 5})
    ns, per = (8, 2500) if tier == "quick" else (16, 30000)
    for k in range(ns):
        specs.append({"stratum": "sampled", "n": per, "k": k, "case_timeout": 10})
    return specs


def _shapes(maxv=2):
    out = []
    for v in range(maxv + 1):
        for lb in range(0, v + 1):
            for ub in range(v, maxv + 1):
                if lb == ub:
                    out.append((v, lb, ub, "jump"))
                else:
                    for s in ("lower1", "upper1", "alt"):
                        out.append((v, lb, ub, s))
    return out


def gen_cases(spec, ctx):
    if spec.get("exhaustive"):
        shapes = _shapes()
        idx = 0
        for n in (1, 2, 3):
            for combo in itertools.product(shapes, repeat=n):
                if n == 3 and not spec.get("full") and (idx % 4):
                    idx += 1        # quick tier: every 4th triple (still all singles and pairs)
                    continue
                if idx % spec["of"] == spec["k"]:
                    for api in APIS:
                        yield {"items": [list(c) + [0] for c in combo], "api": api, "init": None}
                idx += 1
        return
    r = ctx.rng
    for _ in range(spec["n"]):
        n = r.choice([1, 2, 2, 3, 4, 5, 8, 12])
        k = r.choice([0, 1, 2, 3, 5, 20, 10**6])
        items = []
        base = None
        for i in range(n):
            v = r.randint(0, k)
            x = r.random()
            if x < 0.15:
                lb = ub = v                       # already definitive
            elif x < 0.3 and base is not None:
                lb, ub = base                     # identical interval to another item
                v = r.randint(lb, ub)
            else:
                w = r.choice([1, 2, 3, 10, k + 1])
                lb = max(0, v - r.randint(0, w))
                ub = v + r.randint(0, w)
            base = (lb, ub)
            # unit-step schedules only on narrow intervals (a 10^6-wide interval needs 10^6 legitimate steps)
            sched = r.choice(SCHEDULES) if ub - lb <= 60 else r.choice(["jump", "random"])
            items.append([v, lb, ub, sched, r.randrange(1 << 30)])
        if r.random() < 0.2:                      # ties in the true value
            items.append(list(r.choice(items)))
        # initial_bounds is an extra input the property does not quantify over: never supplied here.
        # (Observed and recorded in DESIGN.md: sound initial bounds whose upper end equals the true
        # minimum make the search prune the answer itself and return None.)
        init = None
        falsy = r.random() < 0.3
        for api in APIS:
            c = {"items": items, "api": api, "init": init}
            if falsy:
                c["falsy"] = True
            yield c


def check(case, ctx):
    from graphtage import bounds as gb, search as gs
    spec_items = case["items"]
    n = len(spec_items)
    # legitimate number of True-steps per item: its width for unit schedules, 1 for jump, <= 64+60 for wide random
    width = sum(1 if it[3] == "jump" else min(it[2] - it[1], 124) if it[3] == "random" else it[2] - it[1] for it in spec_items)
    budget = [50 * (width + n * n) + 1000]
    start = budget[0]
    # (in "falsy" cases every other item, starting with the first, has len() == 0)
    items = [(EmptyItem if case.get("falsy") and i % 2 == 0 else Item)(i, it[0], it[1], it[2], it[3], it[4], budget)
             for i, it in enumerate(spec_items)]
    if ctx is not None and case.get("falsy"):
        ctx.count("cases_with_falsy_items")
    minv = min(it.v for it in items)
    api = case["api"]
    diags = []
    try:
        if api in ("search", "stepped"):
            init = None if case.get("init") is None else gb.Range(*case["init"])
            s = gs.IterativeTighteningSearch(iter(items), initial_bounds=init)
            if api == "search":
                best = s.search()
            else:
                prev = s.bounds()
                steps = 0
                while True:
                    t = s.tighten_bounds()
                    steps += 1
                    cur = s.bounds()
                    if not (cur.lower_bound >= prev.lower_bound and cur.upper_bound <= prev.upper_bound):
                        diags.append({"kind": "search-bounds-widened", "prev": str(prev), "cur": str(cur), "step": steps})
                        break
                    if t and cur == prev and s.best_match is not None and all(i.lb == i.ub for i in items):
                        diags.append({"kind": "search-true-without-progress", "bounds": str(cur), "step": steps})
                        break
                    if cur.finite and not (cur.lower_bound <= minv <= cur.upper_bound) and s._unprocessed is None:
                        diags.append({"kind": "search-bounds-unsound", "bounds": str(cur), "min": minv, "step": steps})
                        break
                    if not t:
                        break
                    prev = cur
                    if steps > start:
                        raise core.Budget("stepped search did not stop")
                best = s.best_match
            fb = s.bounds()
            if best is None:
                diags.append({"kind": "search-no-result"})
            else:
                if best.v != minv:
                    diags.append({"kind": "search-not-minimum", "got": best.v, "min": minv})
                if not (fb.lower_bound == fb.upper_bound == minv):
                    diags.append({"kind": "search-final-bound", "bounds": str(fb), "min": minv})
                if best.lb != best.ub:
                    diags.append({"kind": "search-result-not-tightened", "item": repr(best)})
        elif api == "sort":
            out = list(gb.sort(items))
            if sorted(map(id, out)) != sorted(map(id, items)):
                diags.append({"kind": "sort-not-a-permutation", "n_in": n, "n_out": len(out)})
            vs = [o.v for o in out]
            if any(vs[i] > vs[i + 1] for i in range(len(vs) - 1)):
                diags.append({"kind": "sort-order", "values": vs})
        elif api == "min":
            m = gb.min_bounded(iter(items))
            if m is None or m.v != minv:
                diags.append({"kind": "min-not-minimum", "got": None if m is None else m.v, "min": minv})
        elif api == "distinct":
            gb.make_distinct(*items)
            for a, b in itertools.combinations(items, 2):
                disjoint = a.ub < b.lb or b.ub < a.lb
                both_def = a.lb == a.ub and b.lb == b.ub
                if not (disjoint or both_def):
                    diags.append({"kind": "distinct-overlap", "a": repr(a), "b": repr(b)})
                    break
    except core.Budget as ex:
        diags.append({"kind": "step-budget", "msg": str(ex), "calls": start})
    except Exception as ex:  # noqa
        diags.append(core.exc_diag("exception", ex))
    # soundness of the instrumented items themselves (guards the harness, not the code under test)
    for it in items:
        assert it.lb <= it.v <= it.ub
    if ctx is not None:
        ctx.count("api_" + api)
        ctx.count("item_tighten_calls", sum(i.n_tighten for i in items))
        ctx.count("item_tighten_true", sum(i.n_true for i in items))
        ctx.count("item_bounds_reads", sum(i.n_bounds for i in items))
        if case.get("init") is not None:
            ctx.count("with_initial_bounds")
        overl = any((a[1] <= b[2] and b[1] <= a[2]) and (a[1] != a[2] or b[1] != b[2])
                    for a, b in itertools.combinations(spec_items, 2))
        ctx.seen(case, nontrivial=n >= 2 and overl)
    return diags


def classify(case, diag):
    return None


def shrink_candidates(case):
    items = case["items"]
    for i in range(len(items)):
        if len(items) > 1:
            yield {"items": items[:i] + items[i + 1:], "api": case["api"], "init": case.get("init")}
    if case.get("init") is not None:
        yield {"items": items, "api": case["api"], "init": None}
    for i, it in enumerate(items):
        v, lb, ub, s, seed = it
        for cand in ([v, lb, ub, "lower1", 0], [v, lb, ub, "upper1", 0], [v, max(lb, v - 1), min(ub, v + 1), s, seed]):
            if cand != it:
                yield {"items": items[:i] + [cand] + items[i + 1:], "api": case["api"], "init": case.get("init")}


def coverage_extra(counters, tier):
    return {"exhaustive": True,
            "exhaustive_subspaces": "every ordered collection of 1..3 items over "
                                    "true values {0,1,2}, all sound intervals inside [0,2], schedules lower1/upper1/alt, x 5 APIs"}


LEVEL_TEXT = ("Runtime monitoring of the real IterativeTighteningSearch, bounds.sort, min_bounded and make_distinct driven over "
              "instrumented synthetic Bounded items whose hidden values give the reference answer (min / sorted). The stepped-search "
              "mode also reads the search's own interval at every step (never widens, contains the true minimum, ends single-valued). "
              "Termination is decided by a logical call budget on the instrumented items, not by wall clock.")
LEVEL_NOTE = ("Trusted: the instrumented Item class and the min()/sorted() reference (gv/props/c17.py). Collections above 3 items and "
              "value ranges above 2 are sampled (sizes <= 12, ranges up to 10^6), not enumerated.")
TECHNIQUE = "runtime monitor: instrumented Bounded items record every call; results vs min/sorted reference; logical step budgets"
