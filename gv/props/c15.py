"""C15 — Minimum-weight assignment is valid and optimal.

Monitor: graphtage.matching.min_weight_bipartite_matching runs in lock-step with an exact
brute-force assignment (all injections, rational arithmetic).  A second stratum wraps the routine
while real diffs run, so the tables the engine itself builds are judged too."""
import itertools

from gv import core
from gv.oracle import brute_assignment

ID = "C15"
LEVEL = "exploration"
RULE = ("weight tables: exhaustive over tiny shapes/alphabets, sampled shapes <= 6x7 with ties, dtype-boundary values, "
        "floats, bools, sparse tables, negative weights, plus the tables built by WeightedBipartiteMatcher inside real "
        "diffs; non-trivial = at least 2x2 with two distinct weights or a missing pair; distinct = distinct table")
ASSUMPTIONS = ["optimality is judged only for complete tables whose possible totals are exactly representable in float64 "
               "(sum of the min(n,m) largest |w| <= 2**53): the routine documents native-type arithmetic",
               "for sparse tables only validity (one-to-one, existing pairs, true weights) is judged, as the property states",
               "bool tables with missing pairs may raise the documented ValueError"]
MINIMUMS = {"quick": {"same_sequence_object_on_both_sides": 3000, "tables_judged": 20000, "optimality_judged": 15000, "engine_tables": 50},
            "thorough": {"tables_judged": 400000, "optimality_judged": 300000, "engine_tables": 1000}}

BOUNDARY = [0, 1, 2, 3, 254, 255, 256, 65534, 65535, 65536, 2**31 - 1, 2**31, 2**32 - 1, 2**32, 2**53 - 1, 2**53]
HUGE = [2**53 + 1, 2**62, 2**63 - 1, 2**63, 2**64 - 1]


def plan(tier, seed):
    specs = []
    ex = [("int012", [0, 1, 2], 3, 3), ("int01N", [0, 1, None], 3, 3),
          ("float", [0.0, 0.5, 1.5], 3, 3), ("bool", [False, True], 3, 3),
          # sparse tables whose weights are all negative (the placeholder for a missing pair, derived from the weights, can then be
          # zero or negative itself), integers and floats
          ("negN", [-2, -1, None], 3, 3), ("negfloatN", [-1.0, -0.5, None], 2, 3)]
    if tier == "thorough":
        ex += [("int012-3x4", [0, 1, 2], 3, 4), ("int012-4x3", [0, 1, 2], 4, 3), ("int01N-3x4", [0, 1, None], 3, 4),
               ("neg", [-1, 0, 1], 3, 3), ("bigtie", [2**32, 2**32 + 1, 2**53], 3, 3)]
    for name, alpha, n, m in ex:
        nsh = 8 if (n * m > 9) else 2
        for k in range(nsh):
            specs.append({"stratum": f"exhaustive-{name}", "alphabet": alpha, "maxn": n, "maxm": m, "k": k, "of": nsh,
                          "only_max": n * m > 9, "clean": all(a is not None for a in alpha) and name != "bigtie"})
    ns, per = (6, 2500) if tier == "quick" else (16, 40000)
    for k in range(ns):
        specs.append({"stratum": "sampled-clean", "n": per, "k": k, "clean": True})
    for k in range(max(2, ns // 2)):
        specs.append({"stratum": "sampled-full", "n": per, "k": k})
    ne, pe = (2, 120) if tier == "quick" else (8, 1500)
    for k in range(ne):
        specs.append({"stratum": "engine", "n": pe, "k": k, "clean": True})
    return specs


def gen_cases(spec, ctx):
    st = spec["stratum"]
    r = ctx.rng
    if st.startswith("exhaustive"):
        al = spec["alphabet"]
        shapes = [(n, m) for n in range(0, spec["maxn"] + 1) for m in range(0, spec["maxm"] + 1)]
        if spec.get("only_max"):
            shapes = [(spec["maxn"], spec["maxm"])]
        idx = 0
        for n, m in shapes:
            for flat in itertools.product(al, repeat=n * m):
                if idx % spec["of"] == spec["k"]:
                    yield {"table": [list(flat[i * m:(i + 1) * m]) for i in range(n)], "n": n, "m": m}
                idx += 1
        return
    if st == "engine":
        from gv import gen
        for _ in range(spec["n"]):
            a, b = gen.dict_pair_for_matching(r)
            yield {"engine": True, "a": a, "b": b, "ds": r.choice(["auto", "match"])}
        return
    clean = st == "sampled-clean"
    for _ in range(spec["n"]):
        n, m = r.randint(1, 6), r.randint(1, 7)
        if r.random() < 0.05:
            n, m = r.choice([(0, 3), (3, 0), (1, 1), (1, 7), (6, 1)])
        kind = r.random()
        if kind < 0.30:
            pool = list(range(r.choice([2, 3, 5, 10])))            # many ties
        elif kind < 0.55:
            pool = r.sample(BOUNDARY, r.randint(2, 6))              # dtype boundaries
        elif kind < 0.70:
            pool = [r.choice([0.0, 0.25, 0.5, 1.0, 1.5, 2.75, 1e9, 1e-9, 3.5e300]) for _ in range(4)]
        elif kind < 0.78:
            pool = [False, True]
        elif kind < 0.90:
            pool = [r.randint(0, 1000) for _ in range(8)]
        else:
            pool = [r.randint(0, 2**53) for _ in range(8)]
        if not clean:
            x = r.random()
            if x < 0.35 and not isinstance(pool[0], bool):
                pool = pool + [None] * r.randint(1, 4)              # sparse
            elif x < 0.5 and isinstance(pool[0], int) and not isinstance(pool[0], bool):
                pool = pool + [-r.randint(1, 100) for _ in range(2)]  # negative
            elif x < 0.55 and isinstance(pool[0], int) and not isinstance(pool[0], bool):
                pool = pool + [-5, None]
            elif x < 0.6:
                # every existing weight negative, some pairs missing (ints or floats)
                pool = r.choice([[-1, -2, -3, None], [-1, -1, None, None], [-1.0, -2.5, None], [-7, -1, -100, None, None]])
            elif x < 0.7 and isinstance(pool[0], int) and not isinstance(pool[0], bool):
                pool = pool + r.sample(HUGE, 2)
            elif x < 0.75 and isinstance(pool[0], int) and not isinstance(pool[0], bool):
                pool = r.sample(HUGE, 2) + [None]
            elif x < 0.8:
                pool = [None]
        yield {"table": [[r.choice(pool) for _ in range(m)] for _ in range(n)], "n": n, "m": m}


def judge(table, n, m, result, ctx=None):
    """Validity always; cardinality + optimality for complete tables in the exactly-representable range."""
    diags = []
    flat = [w for row in table for w in row]
    present = [w for w in flat if w is not None]
    complete = len(present) == len(flat)
    if not isinstance(result, dict) and not hasattr(result, "items"):
        return [{"kind": "not-a-mapping", "type": type(result).__name__}]
    used_to = {}
    total = 0
    for fi, pair in result.items():
        try:
            ti, w = pair
        except Exception:
            return [{"kind": "malformed-entry", "entry": repr(pair)[:80]}]
        if not (isinstance(fi, int) or hasattr(fi, "__index__")) or not (0 <= int(fi) < n) or not (0 <= int(ti) < m):
            diags.append({"kind": "index-out-of-range", "from": int(fi), "to": int(ti)})
            continue
        fi, ti = int(fi), int(ti)
        if ti in used_to:
            diags.append({"kind": "not-one-to-one", "to": ti, "from": [used_to[ti], fi]})
        used_to[ti] = fi
        tw = table[fi][ti]
        if tw is None:
            diags.append({"kind": "missing-pair-used", "from": fi, "to": ti})
            continue
        if type(w) is not type(tw) or w != tw:
            diags.append({"kind": "wrong-weight", "from": fi, "to": ti, "reported": repr(w), "true": repr(tw)})
        total += tw
    if diags:
        return diags
    if complete and n and m:
        if len(result) != min(n, m):
            diags.append({"kind": "cardinality", "paired": len(result), "expected": min(n, m)})
        # the solver adds weights in float64: totals (not just single weights) must stay exactly representable
        ints = [abs(w) for w in present if not isinstance(w, (bool, float))]
        exact_ok = sum(sorted(ints)[-min(n, m):]) <= 2**53
        if exact_ok and not diags:
            if ctx is not None:
                ctx.count("optimality_judged")
            from fractions import Fraction
            card, best = brute_assignment(table)
            tot = sum(Fraction(table[fi][ti]) if not isinstance(table[fi][ti], bool) else Fraction(int(table[fi][ti]))
                      for fi, (ti, _) in result.items())
            if tot != best:
                # float tables: tolerate only differences explained by float64 addition order
                if any(isinstance(w, float) for w in present) and abs(float(tot) - float(best)) <= 1e-9 * max(1.0, abs(float(best))):
                    if ctx is not None:
                        ctx.count("float_rounding_ties")
                else:
                    diags.append({"kind": "suboptimal", "total": str(tot), "optimum": str(best)})
        elif ctx is not None:
            ctx.count("optimality_not_judged_above_2^53")
    elif (n == 0 or m == 0) and len(result) != 0:
        diags.append({"kind": "cardinality", "paired": len(result), "expected": 0})
    return diags


def check(case, ctx):
    if case.get("engine"):
        return check_engine(case, ctx)
    from graphtage import matching
    table, n, m = case["table"], case["n"], case["m"]
    flat = [w for row in table for w in row]
    has_none = any(w is None for w in flat)
    is_bool = any(isinstance(w, bool) for w in flat)
    try:
        # the two node sequences as callers pass them: two lists, a list and a tuple, a range, and -- for square tables -- the very
        # same sequence object on both sides (a set of nodes matched against itself; the table need not be symmetric)
        h = (n * 31 + m * 17 + len(repr(table))) % 5
        rows, cols = list(range(n)), list(range(m))
        if h == 1:
            rows, cols = tuple(rows), cols
        elif h == 2:
            rows, cols = range(n), range(m)
        elif h == 3 and n == m:
            cols = rows
            if ctx is not None:
                ctx.count("same_sequence_object_on_both_sides")
        res = matching.min_weight_bipartite_matching(rows, cols, lambda i, j: table[i][j])
    except ValueError as ex:
        if is_bool and has_none:   # documented: bool tables must be complete
            if ctx is not None:
                ctx.count("documented_valueerror")
                ctx.seen(case, False)
            return []
        return [core.exc_diag("exception", ex)]
    except Exception as ex:  # noqa
        return [core.exc_diag("exception", ex)]
    diags = judge(table, n, m, res, ctx)
    if ctx is not None:
        ctx.count("tables_judged")
        ctx.count("sparse_tables" if has_none else "complete_tables")
        distinct_w = len(set(map(repr, flat)))
        ctx.seen(case, nontrivial=(n >= 2 and m >= 2 and distinct_w >= 2))
    return diags


def check_engine(case, ctx):
    """Run a real diff with the routine wrapped: every table the engine builds is judged."""
    import graphtage
    import graphtage.json as gj
    from graphtage import matching
    orig = matching.min_weight_bipartite_matching
    found = []

    def wrapped(from_nodes, to_nodes, get_edges):
        table = [[get_edges(f, t) for t in to_nodes] for f in from_nodes]
        res = orig(from_nodes, to_nodes, get_edges)
        ds = judge(table, len(from_nodes), len(to_nodes), res, ctx)
        if ctx is not None:
            ctx.count("engine_tables")
            if len(from_nodes) >= 2 and len(to_nodes) >= 2:
                ctx.count("engine_tables_2x2_or_larger")
        for d in ds:
            d["table"] = table
            d["kind"] = "engine-" + d["kind"]
        found.extend(ds)
        return res

    matching.min_weight_bipartite_matching = wrapped
    try:
        ds = case["ds"]
        opts = graphtage.BuildOptions(allow_key_edits=True, auto_match_keys=ds == "auto")
        ta, tb = gj.build_tree(case["a"], opts), gj.build_tree(case["b"], opts)
        try:
            d = ta.diff(tb)
            d.edited_cost()
        except Exception as ex:  # noqa  (other properties judge engine errors; here only the tables)
            if ctx is not None:
                ctx.count("engine_diff_raised")
    finally:
        matching.min_weight_bipartite_matching = orig
    if ctx is not None:
        ctx.seen(case, nontrivial=True)
    return found


def classify(case, diag):
    if case.get("engine"):
        return None
    flat = [w for row in case["table"] for w in row]
    present = [w for w in flat if w is not None]
    has_none = len(present) != len(flat)
    if diag["kind"] == "exception":
        if diag["exc"] == "TypeError" and not present:
            return "all-missing-table-typeerror"
        if diag["exc"] == "AssertionError" and has_none and any(not isinstance(w, bool) and w < 0 for w in present):
            return "sparse-negative-assertion"
        if diag["exc"] == "AssertionError" and has_none and any(isinstance(w, float) and abs(w) >= 2.0**53 for w in present):
            return "sparse-float-sentinel-absorbed"
        if diag["exc"] == "OverflowError" and has_none and any(isinstance(w, int) and w >= 2**62 for w in present):
            return "sparse-sentinel-overflow"
    return None


def shrink_candidates(case):
    if case.get("engine"):
        return
    t, n, m = case["table"], case["n"], case["m"]
    for i in range(n):
        yield {"table": t[:i] + t[i + 1:], "n": n - 1, "m": m}
    for j in range(m):
        yield {"table": [row[:j] + row[j + 1:] for row in t], "n": n, "m": m - 1}
    for i in range(n):
        for j in range(m):
            w = t[i][j]
            if w is not None and not isinstance(w, (bool, float)) and w not in (0, 1):
                for repl in (0, 1):
                    t2 = [list(row) for row in t]
                    t2[i][j] = repl
                    yield {"table": t2, "n": n, "m": m}


def coverage_extra(counters, tier):
    return {"exhaustive": True,
            "exhaustive_subspaces": "every table of shape <= 3x3 over {0,1,2}, {0,1,None}, {0.0,0.5,1.5}, {False,True}"
                                    + ("; 3x4 and 4x3 over {0,1,2}; 3x4 over {0,1,None}; <=3x3 over {-1,0,1} and {2^32,2^32+1,2^53}"
                                       if tier == "thorough" else "")}


LEVEL_TEXT = ("Runtime monitoring of the real assignment routine against an exact brute-force reference: validity (one-to-one, "
              "existing pairs only, true weights incl. type) on every table, maximum cardinality and minimum total on every "
              "complete table. All tables up to 3x3 over four small alphabets are enumerated completely; larger shapes (<= 6x7), "
              "dtype-boundary weights, floats, bools, sparse and negative tables are sampled; the tables the matcher builds inside "
              "real dictionary diffs are intercepted and judged too.")
LEVEL_NOTE = ("Trusted: the brute-force reference (all injections, Fraction arithmetic). Optimality above 2**53 is not judged "
              "(float64 solver, documented native-type arithmetic); sparse tables are judged for validity only, as the property states.")
TECHNIQUE = "runtime monitor: real routine vs exact brute-force assignment in lock-step (exhaustive tiny + sampled + engine-built tables)"
