"""C03 — The reported cost equals the sum of its parts, in every view.

Monitor: a conservation check over the real edit objects.  For every compound edit of the refined
script, cost(edit) must equal the sum of the costs of the sub-edits it lists; and the four views
(top-level edit refined to one value / diff tree's edited_cost() / sum over get_all_edits() /
per-level sums) must agree.  Each view is computed on fresh trees so that one view's driving order
cannot repair another's."""
import collections

from gv import core, families, gen, monitors

ID = "C03"
LEVEL = "exploration"
RULE = ("tree pairs (C01's generators, biased to containers of different sizes so that elements stay unmatched; JSON-like x 9 option "
        "combinations, BasicBuilder, multisets, XML, CSV, plist, dataclass, PyObj); non-trivial = total cost > 0 and the script "
        "has at least one compound edit with >= 2 sub-edits; distinct = distinct case")
ASSUMPTIONS = ["cost(e) = e.bounds() once e.tighten_bounds() returns False (must be a single value)",
               "whether the cost is minimal is not judged"]
MINIMUMS = {"quick": {"diff_results_compared_again": 4000, "diff_tree_costs_after_rendering": 4000, "views_compared": 8000, "levels_summed": 15000},
            "thorough": {"diff_tree_costs_after_rendering": 50000, "views_compared": 100000, "levels_summed": 200000}}


def plan(tier, seed):
    q = tier == "quick"
    specs = []
    n_json, per_json = (10, 250) if q else (16, 1600)
    for k in range(n_json):
        specs.append({"stratum": "json-x9-options", "family": "json", "n": per_json, "k": k, "all_options": True, "clean": True})
    for k in range(2 if q else 8):
        specs.append({"stratum": "json-big-costs", "family": "json", "n": 8 if q else 40, "k": k, "clean": True, "bigcost": True,
                      "case_timeout": 120, "shrink": False})
    for k in range(2 if q else 8):
        specs.append({"stratum": "json-deep-and-wide", "family": "json", "n": 12 if q else 100, "k": k, "clean": True, "deepwide": True,
                      "case_timeout": 240, "shrink": False})
    if not q:
        for k in range(8):
            specs.append({"stratum": "json-large-documents", "family": "json", "n": 150, "k": k, "clean": True, "profile": "large",
                          "case_timeout": 120})
    per_f = 300 if q else 6000
    for fam in ["basic", "xml", "csv", "plist", "dataclass", "pyobj"]:
        specs.append({"stratum": f"family-{fam}", "family": fam, "n": per_f, "k": 0, "clean": True})
    specs.append({"stratum": "family-mset-nodup", "family": "mset", "n": per_f, "k": 0, "clean": True, "nodup": True})
    specs.append({"stratum": "family-mset-dup", "family": "mset", "n": per_f, "k": 0, "case_timeout": 10})
    for k in range(2 if q else 4):
        specs.append({"stratum": "plist-and-fixed-key-mappings-with-renamed-keys", "n": 250 if q else 4000, "k": k, "clean": True,
                      "renamed": True})
    return specs


def _no_null(o):
    if isinstance(o, dict):
        return {k: _no_null(v) for k, v in o.items()}
    if isinstance(o, list):
        return [_no_null(v) for v in o]
    return "nil" if o is None else o


def gen_cases(spec, ctx):
    from gv.props import c01
    if spec.get("renamed"):
        # edit collections (the plist wrapper, mappings under strategy none) around mappings whose keys were renamed while their
        # values changed and whose unmatched sides differ in size: the collection's total depends on nested edits that other
        # parties (the matcher, a renderer) refine
        r = ctx.rng
        for _ in range(spec["n"]):
            a, b = gen.dict_pair_for_matching(r)
            if r.random() < 0.5:
                a, b = {"root": a, "v": 2}, {"root": b, "v": 2}
            fam = r.choice(["plist", "plist", "json"])
            if fam == "plist":
                a, b = _no_null(a), _no_null(b)       # (plists cannot hold null)
            yield {"family": fam, "a": a, "b": b, "ds": r.choice(gen.DS) if fam == "plist" else "none", "le": r.choice(gen.LE)}
        return
    yield from c01.gen_cases(spec, ctx)


def _cost(e):
    b = monitors.tight(e)
    return b


def check(case, ctx):
    diags = []
    monitors.TRAP.reset()
    levels = 0
    nontrivial = False
    try:
        # V1 + V4 ------------------------------------------------------------------------------
        ta, tb = families.build(case)
        e = ta.edits(tb)
        b1 = _cost(e)
        if not b1.definitive():
            diags.append({"kind": "top-level-cost-not-a-single-value", "bounds": str(b1), "edit": type(e).__name__})
            v1 = None
        else:
            v1 = b1.upper_bound
        if v1 is not None:
            for x in monitors.walk_script(e):
                subs = monitors.sub_edits(x)
                if subs is None:
                    continue
                bx = _cost(x)
                parts = []
                ok = True
                for s in subs:
                    bs = _cost(s)
                    if not bs.definitive():
                        ok = False
                        diags.append({"kind": "sub-edit-cost-not-a-single-value", "edit": type(s).__name__, "bounds": str(bs)})
                        break
                    parts.append(bs.upper_bound)
                if not ok:
                    break
                levels += 1
                if len(subs) >= 2:
                    nontrivial = True
                if not bx.definitive() or bx.upper_bound != sum(parts):
                    diags.append({"kind": "level-sum-mismatch", "edit": type(x).__name__, "cost": str(bx), "sum_of_parts": sum(parts),
                                  "parts": parts[:12], "detail": _multiset_detail(x)})
                    break
        # V2 ---------------------------------------------------------------------------------------
        ta2, tb2 = families.build(case)
        v2 = ta2.diff(tb2).edited_cost()
        # V3 ---------------------------------------------------------------------------------------
        ta3, tb3 = families.build(case)
        v3 = 0
        for x in ta3.get_all_edits(tb3):
            bx = _cost(x)
            v3 += bx.upper_bound
        if v1 is not None and not (v1 == v2 == v3):
            diags.append({"kind": "views-disagree", "top_level_edit": v1, "diff_tree_edited_cost": v2, "sum_get_all_edits": v3,
                          "edit": type(e).__name__})
        # V6: a chain of versions -- the result of a comparison (an annotated copy of the first tree) is compared again: its cost
        # against the second tree must be the same total, by the diff tree and by the flat list alike, and the first result's own
        # cost must not move
        if v1 is not None:
            ta6, tb6 = families.build(case)
            d6 = ta6.diff(tb6)
            c6 = d6.edited_cost()
            ta7, tb7 = families.build(case)
            d67 = d6.diff(tb7)
            v6a = d67.edited_cost()
            v6b = sum(_cost(x).upper_bound for x in d6.get_all_edits(tb7))
            if ctx is not None:
                ctx.count("diff_results_compared_again")
            if not (v6a == v6b == v1) or d6.edited_cost() != c6:
                diags.append({"kind": "views-disagree", "top_level_edit": v1, "diff_of_a_diff_result_edited_cost": v6a,
                              "diff_result_get_all_edits": v6b, "first_result_cost_before_after": [c6, d6.edited_cost()],
                              "edit": type(e).__name__})
        # V5: the diff tree again, asked for its cost *after it has been rendered* (rendering refines nested edits directly, below
        # the edit that holds them), and the per-level sums of the edits the rendered tree carries
        if v1 is not None and case["family"] in ("json", "xml", "csv", "plist", "file"):
            import io
            import graphtage.printer as gp
            from gv.props.c05 import _formatter
            ta5, tb5 = families.build(case)
            d5 = ta5.diff(tb5)
            rendered = True
            try:
                with gp.Printer(out_stream=io.StringIO(), ansi_color=False, quiet=True) as p5:
                    _formatter(case["family"]).print(p5, d5)
            except core.Budget:
                raise
            except Exception:  # noqa  (rendering errors are C13's)
                rendered = False
            if rendered:
                v5 = d5.edited_cost()
                if ctx is not None:
                    ctx.count("diff_tree_costs_after_rendering")
                if v5 != v1:
                    diags.append({"kind": "views-disagree", "top_level_edit": v1, "diff_tree_edited_cost_after_rendering": v5,
                                  "edit": type(e).__name__})
                else:
                    for top in getattr(d5, "edit_list", None) or []:
                        for x in monitors.walk_script(top):
                            subs = monitors.sub_edits(x)
                            if subs is None:
                                continue
                            bx = x.bounds()
                            parts = [s.bounds() for s in subs]
                            if all(p_.definitive() for p_ in parts) and (not bx.definitive() or bx.upper_bound != sum(p_.upper_bound for p_ in parts)):
                                diags.append({"kind": "level-sum-mismatch", "edit": type(x).__name__, "cost": str(bx), "after_rendering": True,
                                              "sum_of_parts": sum(p_.upper_bound for p_ in parts), "detail": _multiset_detail(x)})
                                break
                        if diags:
                            break
        if ctx is not None:
            ctx.count("views_compared")
            ctx.count("levels_summed", levels)
            ctx.count("family:" + case["family"])
            if v1:
                ctx.count("nonzero_cost_cases")
    except core.Budget as ex:
        diags.append({"kind": "step-budget", "msg": str(ex)[:200]})
    except Exception as ex:  # noqa
        diags.append(core.exc_diag("exception", ex))
    if ctx is not None:
        ctx.seen(case, nontrivial and bool(levels))
    return diags


def _multiset_detail(x):
    """Diagnosis for the classifier: is the mismatch exactly 'largest leftovers charged vs actual leftovers emitted'?"""
    from graphtage.multiset import MultiSetEdit
    if not isinstance(x, MultiSetEdit):
        return None
    try:
        nrem, nins = len(x.to_remove), len(x.to_insert)
        return {"to_remove": nrem, "to_insert": nins, "unbalanced": nrem != nins}
    except Exception:
        return None


def classify(case, diag):
    if case.get("family") == "mset":
        dup = any(len(x) != len({core.jdump(v) for v in x}) for x in (case["a"], case["b"]))
        if dup:
            return "multiset-duplicates-collapse"
    return None


def shrink_candidates(case):
    yield from families.shrink_case(case)


LEVEL_TEXT = ("Runtime conservation check on the real edit objects: for every compound edit of every refined script the reported cost "
              "must equal the sum of the costs of the listed sub-edits, and the totals obtained from the top-level edit, from the diff "
              "tree's edited_cost() and from get_all_edits() (each on freshly built trees) must coincide.")
LEVEL_NOTE = ("Trusted: integer addition. Covers the same tree families and option grid as C01; sizes bounded (depth <= 3, width <= 6).")
TECHNIQUE = "runtime monitor: cost conservation per nesting level + agreement of four independent cost views"
