"""C06 — Both documents can be read back from the rendered diff.

Monitor: the bytes the real JSONFormatter writes to a Printer(ansi_color=True) are decoded by an SGR
state machine + combining-mark reader into per-character classes {common, removed, inserted}; the two
projections are parsed by a tolerant structural JSON reader and compared (type-strictly) with the
generated documents; marks must be present exactly when the documents differ."""
import copy
import io

from gv import core, families, gen, monitors
from gv import oracle
from gv.oracle import typed_eq, has_int_float_twin

ID = "C06"
LEVEL = "exploration"
RULE = ("pairs of JSON-representable documents (hostile strings: quotes, backslashes, arrows, tildes, pluses, control and non-ASCII "
        "characters, the mark characters themselves, ESC sequences) x {auto,match,none} x layouts {expanded, -jl, -jd, -j}; "
        "related/identical/unrelated and one-atom pairs; non-trivial = documents differ and the rendering mixes common and marked "
        "characters; distinct = distinct case")
ASSUMPTIONS = ["separator placement is not judged: commas are ignored by the reader, ' -> ' in cyan is a separator",
               "only the colour mode is decoded (the ~~/++ plain mode is ambiguous with payload by construction)",
               "JSON escaping makes every literal U+0336/U+031F/ESC in the stream a mark, never payload"]
MINIMUMS = {"quick": {"renderings_decoded": 8000, "unequal_renderings": 5000, "equal_renderings": 500},
            "thorough": {"renderings_decoded": 200000, "unequal_renderings": 120000, "equal_renderings": 10000}}
LAYOUTS = ["expanded", "jl", "jd", "j"]


def plan(tier, seed):
    q = tier == "quick"
    specs = []
    ns, per = (12, 90) if q else (16, 2200)
    for k in range(ns):
        specs.append({"stratum": "pairs-x12", "n": per, "k": k, "clean": True})
    return specs


def gen_cases(spec, ctx):
    from gv.props import c02
    r = ctx.rng
    for _ in range(spec["n"]):
        a = gen.gdoc(r, gen.HOSTILE, containers_only=r.random() < 0.9)
        x = r.random()
        if x < 0.1:
            b = gen.permute_keys(r, copy.deepcopy(a))
        elif x < 0.35:
            res = c02.one_atom(r, a)
            if res is None:
                continue
            b = res[0]
        elif x < 0.85:
            b = gen.mutate(r, a, gen.HOSTILE)
        else:
            b = gen.gdoc(r, gen.HOSTILE, containers_only=r.random() < 0.9)
        if has_int_float_twin(a, b):
            continue
        if spec.get("norepl") and _has_mapping_to_other_in_list(a, b):
            continue
        for ds in gen.DS:
            for layout in LAYOUTS:
                yield {"a": a, "b": b, "ds": ds, "layout": layout}


def _has_mapping_to_other_in_list(a, b):
    """Trigger of the open finding: a list holds a mapping on one side and a non-mapping on the other (any depth)."""
    def lists(o, out):
        if isinstance(o, list):
            out.append(o)
            for v in o:
                lists(v, out)
        elif isinstance(o, dict):
            for v in o.values():
                lists(v, out)
        return out
    la, lb = lists(a, []), lists(b, [])
    has_map_a = any(isinstance(v, dict) for l in la for v in l)
    has_non_b = any(not isinstance(v, dict) for l in lb for v in l)
    return has_map_a and has_non_b


def render(case):
    import graphtage.json as gj
    import graphtage.printer as gp
    opts = gen.build_options(case["ds"], "on")
    ta, tb = gj.build_tree(case["a"], opts), gj.build_tree(case["b"], opts)
    d = ta.diff(tb)
    out = io.StringIO()
    layout = case["layout"]
    p = gp.Printer(out_stream=out, ansi_color=True, quiet=True,
                   options={"join_lists": layout in ("jl", "j"), "join_dict_items": layout in ("jd", "j")})
    with p:
        gj.JSONFormatter.DEFAULT_INSTANCE.print(p, d)
    return out.getvalue(), d


def check(case, ctx):
    diags = []
    monitors.TRAP.reset()
    a, b = case["a"], case["b"]
    eq = typed_eq(a, b)
    mixed = False
    try:
        text, d = render(case)
        dec = oracle.ansi_decode(text)
        marked = any(cls != "common" for c, cls, sep in dec)
        mixed = marked and any(cls == "common" and not c.isspace() for c, cls, sep in dec)
        if marked == eq:
            diags.append({"kind": "marks-on-equal-documents" if marked else "no-marks-on-unequal-documents", "text": text[:300]})
        for side, drop, want in (("first", "inserted", a), ("second", "removed", b)):
            proj = oracle.project(dec, drop)
            try:
                got = oracle.parse_tolerant_json(proj)
            except oracle.RenderError as ex:
                diags.append({"kind": f"{side}-projection-does-not-parse", "why": str(ex)[:200], "projection": proj[:300],
                              "replace_in_list": _replace_of_mapping_in_list(d)})
                continue
            if not typed_eq(got, want):
                diags.append({"kind": f"{side}-projection-is-another-document", "projection": proj[:300],
                              "replace_in_list": _replace_of_mapping_in_list(d)})
        if ctx is not None:
            ctx.count("renderings_decoded")
            ctx.count("equal_renderings" if eq else "unequal_renderings")
            ctx.count("layout:" + case["layout"])
            ctx.count("characters_decoded", len(dec))
            ctx.count("characters_marked", sum(1 for c, cls, sep in dec if cls != "common"))
    except oracle.RenderError as ex:
        diags.append({"kind": "undecodable-rendering", "why": str(ex)[:200]})
    except core.Budget as ex:
        diags.append({"kind": "step-budget", "msg": str(ex)[:200]})
    except Exception as ex:  # noqa
        diags.append(core.exc_diag("exception", ex))
    if ctx is not None:
        ctx.seen(case, nontrivial=(not eq) and mixed)
    return diags


def _replace_of_mapping_in_list(d):
    """Diagnosis for the classifier: does the script hold a Replace whose source is a mapping that is a direct
    element of a list?"""
    import graphtage
    from graphtage import edits as ge
    try:
        for top in (getattr(d, "edit_list", None) or []):
            for x in monitors.walk_script(top):
                if isinstance(x, ge.Replace) and isinstance(x.from_node, graphtage.MappingNode) and \
                        isinstance(x.from_node.parent, graphtage.ListNode):
                    return True
    except Exception:
        return None
    return False


def classify(case, diag):
    return None


def shrink_candidates(case):
    for x, y in gen.shrink_pair(case["a"], case["b"]):
        c = dict(case)
        c["a"], c["b"] = x, y
        yield c
    if case["layout"] != "expanded":
        c = dict(case)
        c["layout"] = "expanded"
        yield c


LEVEL_TEXT = ("Runtime monitoring of what a user sees: the colour rendering of the real JSON formatter is decoded character by "
              "character (SGR state + combining marks), projected onto 'first document' (drop inserted) and 'second document' "
              "(drop removed), parsed by an independent tolerant JSON reader and compared type-strictly with the generated data, "
              "for every dictionary strategy and layout; marks must appear exactly when the documents differ.")
LEVEL_NOTE = ("Trusted: the decoder and the tolerant reader in gv/oracle.py, typed_eq. Indentation, comma/arrow placement and the "
              "plain ~~/++ mode are not judged.")
TECHNIQUE = "runtime monitor: ANSI/combining-mark decoder + projection + independent JSON reader vs generated documents"
