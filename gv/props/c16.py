"""C16 — The priority queue always yields a minimum.

Monitors: (1) a sorted-list model run in lock-step with the real FibonacciHeap / MaxFibonacciHeap at
the public boundary (unique ids make 'which item left' unambiguous); (2) an icontract class invariant
installed in place on FibonacciHeap, evaluated at every public call: heap order along parent links,
_n = live nodes, sibling rings closed, degree = number of children, _min is a minimal root."""
import itertools

from gv import core

ID = "C16"
LEVEL = "exploration"
NEEDS_DEPS = True
RULE = ("operation sequences over {push k, pop, peek, decrease(i-th live item: by 1 / below the minimum), remove(i-th live item)} "
        "on the min-heap (with and without key function) and push/pop/peek/remove on the max-heap: exhaustive up to a length "
        "bound over keys {0,1,2}, plus long random sequences with duplicate keys and cascading-cut patterns; "
        "non-trivial = at least one pop/peek after a decrease/remove or after a consolidation; distinct = distinct (kind, op list)")
ASSUMPTIONS = ["pop/peek on an empty heap are not driven (the property speaks of live items)",
               "remove() and decrease_key() are only called with nodes that are live members, as their docstrings require",
               "decrease_key() with a larger key is a refused request (ValueError): the queue must then behave as if it had not been made",
               "reference = sorted-list model in gv/props/c16.py"]
MINIMUMS = {"quick": {"refused_key_increases": 3000, "pops_or_peeks_with_a_root_of_degree_above_log2_n": 200, "invariant_evaluations": 100000, "pops_judged": 50000, "decrease_ops": 20000, "remove_ops": 20000, "helper_calls": 4000},
            "thorough": {"pops_or_peeks_with_a_root_of_degree_above_log2_n": 5000, "invariant_evaluations": 2000000, "pops_judged": 1000000, "decrease_ops": 400000, "remove_ops": 400000}}

KINDS = ["min-keyfn", "min-plain", "max", "max-keyfn"]


class InvariantBroken(Exception):
    pass


_INV = {"n": 0}


def heap_ok(self):
    """Class invariant, written against the node fields only (never calls public heap methods).
    If the representation is refactored (fields renamed), the invariant does not apply and only the model decides."""
    try:
        return _heap_ok(self)
    except AttributeError as ex:
        _INV["not_applicable"] = _INV.get("not_applicable", 0) + 1
        return True


def _heap_ok(self):
    _INV["n"] += 1
    root = self._root
    n = self._n
    if root is None:
        if n != 0 or self._min is not None:
            raise InvariantBroken(f"empty root ring but _n={n}, _min={self._min!r}")
        return True
    seen = 0
    lazy = 0   # nodes flagged deleted but still linked: tolerated (peek/pop skip them), counted apart
    stack = []
    # walk the root ring
    ring = _ring(root, "root ring")
    minroot = None
    for r in ring:
        if r.parent is not None:
            raise InvariantBroken(f"root {r!r} has a parent")
        if not r.deleted and (minroot is None or r.key < minroot.key):
            minroot = r
        stack.append(r)
    if self._min is None:
        raise InvariantBroken("non-empty heap without _min")
    if not any(self._min is r for r in ring):
        raise InvariantBroken(f"_min {self._min!r} is not a root")
    if minroot is not None and not self._min.deleted and minroot.key < self._min.key:
        raise InvariantBroken(f"_min key {self._min.key!r} is not minimal among roots ({minroot.key!r})")
    while stack:
        node = stack.pop()
        seen += 1
        if seen > 10 * n + 1000:
            raise InvariantBroken(f"walk does not terminate: more than {seen} reachable nodes with _n={n}")
        if node.deleted:
            lazy += 1
        if node.child is None:
            if node.degree != 0:
                raise InvariantBroken(f"{node!r}: degree {node.degree} with no child")
            continue
        kids = _ring(node.child, f"children of {node!r}")
        if len(kids) != node.degree:
            raise InvariantBroken(f"{node!r}: degree {node.degree} but {len(kids)} children")
        for c in kids:
            if c.parent is not node:
                raise InvariantBroken(f"child {c!r} of {node!r} has parent {c.parent!r}")
            if not c.deleted and not node.deleted and c.key < node.key:
                raise InvariantBroken(f"heap order: child key {c.key!r} < parent key {node.key!r}")
            stack.append(c)
    if n not in (seen, seen - lazy):
        raise InvariantBroken(f"_n={n} but {seen} nodes reachable ({lazy} of them flagged deleted)")
    return True


def _ring(start, what):
    out = [start]
    node = start.right
    guard = 0
    while node is not start:
        if node.left.right is not node or node.right.left is not node:
            raise InvariantBroken(f"{what}: sibling ring not closed at {node!r}")
        out.append(node)
        node = node.right
        guard += 1
        if guard > 100000:
            raise InvariantBroken(f"{what}: ring does not return to its start")
    if start.left.right is not start or start.right.left is not start:
        raise InvariantBroken(f"{what}: sibling ring not closed at {start!r}")
    return out


_installed = False


def setup(ctx):
    global _installed
    if _installed:
        return
    import icontract
    from graphtage import fibonacci
    icontract.invariant(heap_ok, error=lambda self: InvariantBroken("invariant returned False"))(fibonacci.FibonacciHeap)
    _installed = True


def plan(tier, seed):
    specs = []
    maxlen = 6 if tier == "quick" else 7
    firsts = [["push", 0], ["push", 1], ["push", 2]]
    seconds = [["push", 0], ["push", 1], ["push", 2], ["pop"], ["peek"], ["dec", 0, "by1"], ["dec", 0, "below"], ["rem", 0]]
    for kind in (["min-keyfn", "max"] if tier == "quick" else ["min-keyfn", "min-plain", "max", "max-keyfn"]):
        for f in firsts:
            for s in seconds:
                if kind.startswith("max") and s[0] == "dec":
                    continue
                specs.append({"stratum": f"exhaustive-{kind}-len{maxlen}", "kind": kind, "prefix": [f, s],
                              "maxlen": maxlen, "exhaustive": True, "shrink": False, "shard_timeout": 3000})
    ns, per = (8, 700) if tier == "quick" else (16, 12000)
    for k in range(ns):
        specs.append({"stratum": "sampled-long", "n": per, "k": k})
    for k in range(2 if tier == "quick" else 8):
        specs.append({"stratum": "helpers-smallest-largest", "n": 4000 if tier == "quick" else 40000, "k": k, "helpers": True})
    return specs


def _options(live, kind):
    ops = [["push", 0], ["push", 1], ["push", 2]]
    if live:
        ops += [["pop"], ["peek"]]
        for i in range(live):
            if not kind.startswith("max"):
                ops += [["dec", i, "by1"], ["dec", i, "below"]]
            ops.append(["rem", i])
    return ops


def _live_after(live, op):
    if op[0] == "push":
        return live + 1
    if op[0] in ("pop", "rem", "thin"):
        return live - 1
    return live


def gen_cases(spec, ctx):
    kind = spec.get("kind")
    if spec.get("helpers"):
        r = ctx.rng
        for _ in range(spec["n"]):
            m = r.choice([0, 1, 2, 3, 5, 8, 13])
            pool = r.choice([3, 5, 100])
            xs = [r.randrange(pool) for _ in range(m)]
            yield {"kind": "helper", "fn": r.choice(["smallest", "largest"]), "xs": xs, "n": r.choice([0, 1, 2, 3, m, m + 2]),
                   "key": r.choice([None, "neg", "mod3"]), "call": r.choice(["iterable", "varargs"])}
        return
    if spec.get("exhaustive"):
        prefix = spec["prefix"]
        live = 0
        for op in prefix:
            if op[0] != "push" and live == 0:
                return
            live = _live_after(live, op)
        yield {"kind": kind, "ops": prefix}

        def rec(seq, live):
            if len(seq) >= spec["maxlen"]:
                return
            for op in _options(live, kind):
                s2 = seq + [op]
                yield {"kind": kind, "ops": s2}
                yield from rec(s2, _live_after(live, op))
        yield from rec(list(prefix), live)
        return
    r = ctx.rng
    for _ in range(spec["n"]):
        kind = r.choice(KINDS)
        n = r.choice([10, 20, 40, 80, 200])
        keyspace = r.choice([2, 3, 5, 10, 1000])
        pattern = r.random()
        ops = []
        live = 0
        if pattern < 0.4:
            # cascading-cut shape: bulk push, one pop to consolidate, then decreases/removes on inner nodes
            m = r.choice([8, 16, 17, 33, 64])
            for _ in range(m):
                ops.append(["push", r.randrange(keyspace)])
            live = m
            ops.append(["pop"])
            live -= 1
        if pattern < 0.2:
            # thinning: 2**k+1 pushes and one pop leave a single binomial tree; "thin" then removes, guided by the live structure,
            # the largest child of every inner node that can still lose one without a cascading cut (and whatever that spills),
            # until the tree has as few nodes as a tree of its root degree can have (Fibonacci number, e.g. 13 nodes under a
            # root of degree 5): root degrees then exceed log2(n). A few pushes / pops then consolidate over the thin tree.
            k = r.choice([3, 4, 5, 5, 6, 6, 7])
            m = 2 ** k + 1
            ops = [["push", (i if keyspace > 10 else r.randrange(keyspace))] for i in range(m)]
            ops.append(["pop"])
            live = m - 1
            full = 2 ** k - [1, 2, 3, 5, 8, 13, 21, 34, 55][k]
            for _ in range(r.choice([full, full, full + 2, r.randint(full // 2, full)])):
                ops.append(["thin", r.randrange(1 << 16)])
            live = max(1, live - full - 2)      # (a lower bound: surplus "thin" ops are no-ops)
            for _ in range(r.randint(1, 4)):
                ops.append(["push", r.choice([-5, m + 5, r.randrange(keyspace)])])
                live += 1
                if r.random() < 0.7 and live > 1:
                    ops.append(["pop"])
                    live -= 1
                    ops.append(["peek"])
            n = len(ops) + r.choice([0, 2, 6])
        while len(ops) < n:
            x = r.random()
            if live == 0 or x < 0.3:
                ops.append(["push", r.randrange(keyspace)])
                live += 1
            elif x < 0.5:
                ops.append(["pop"])
                live -= 1
            elif x < 0.58:
                ops.append(["peek"])
            elif x < 0.62 and not kind.startswith("max"):
                # an attempt to *raise* a key: decrease_key() refuses it (ValueError); the queue must be what it was before
                ops.append(["inc", r.randrange(live), r.choice([1, 5, 1000])])
            elif x < 0.8 and not kind.startswith("max"):
                ops.append(["dec", r.randrange(live), r.choice(["by1", "below", "tomin", "same"])])
            else:
                ops.append(["rem", r.randrange(live)])
                live -= 1
        yield {"kind": kind, "ops": ops}


def _thin_choice(heap, handles, live, idx):
    """Which live item to remove next so that the biggest tree gets thinner without losing root degree (see gen_cases)."""
    try:
        roots = list(heap._roots)
        if not roots:
            return None
        big = max(roots, key=lambda nd: nd.degree)

        def root_of(nd):
            while nd.parent is not None:
                nd = nd.parent
            return nd
        outside = [v for v in live if root_of(handles[v]) is not big]
        if outside:
            return outside[idx % len(outside)]
        cands = []
        for v in live:
            c = handles[v]
            p = c.parent
            if p is None or p.parent is None or p.mark:
                continue
            if c.degree == max(s.degree for s in p.children):
                cands.append(v)
        if not cands:
            return None
        return cands[idx % len(cands)]
    except AttributeError:
        return None


def run_ops(kind, ops, ctx=None):
    from graphtage import fibonacci
    ismax = kind.startswith("max")
    keyfn = kind.endswith("keyfn")
    if ismax:
        heap = fibonacci.MaxFibonacciHeap(key=(lambda it: it[0]) if keyfn else None)
    else:
        heap = fibonacci.FibonacciHeap(key=(lambda it: it[0]) if keyfn else None)
    model = {}      # uid -> key (what the queue orders by)
    handles = {}    # uid -> HeapNode
    uid = 0
    interesting = False
    dirty = False

    def best():
        return (max if ismax else min)(model.values())

    def mkey(item):
        return item[0] if keyfn else item

    for step, op in enumerate(ops):
        name = op[0]
        if name == "push":
            item = (op[1], uid)
            handles[uid] = heap.push(item)
            model[uid] = op[1] if keyfn else item
            uid += 1
        elif name in ("pop", "peek"):
            if not model:
                continue
            got = heap.pop() if name == "pop" else heap.peek()
            if ctx is not None:
                ctx.count("pops_judged" if name == "pop" else "peeks_judged")
                if dirty:
                    interesting = True
            if not (isinstance(got, tuple) and len(got) == 2 and got[1] in model):
                return {"kind": "returned-non-live-item", "step": step, "op": op, "got": repr(got)}
            gk = model[got[1]]
            if gk != best():
                return {"kind": "not-a-minimum" if not ismax else "not-a-maximum", "step": step, "op": op,
                        "got_key": repr(gk), "best_live_key": repr(best())}
            if name == "pop":
                del model[got[1]]
                del handles[got[1]]
                dirty = True
        elif name == "dec":
            live = sorted(model)
            if not live or ismax:
                continue
            u = live[op[1] % len(live)]
            old = model[u]
            lo = min(model.values())
            if keyfn:
                new = {"by1": old - 1, "below": lo - 1, "tomin": lo, "same": old}[op[2]]
                if new > old:
                    new = old
            else:
                ok, ou = old
                lk = lo[0]
                new = {"by1": (ok - 1, ou), "below": (lk - 1, ou), "tomin": (min(lk, ok), -1 - ou), "same": old}[op[2]]
                if new > old:
                    new = old
            heap.decrease_key(handles[u], new)
            model[u] = new
            dirty = True
            if ctx is not None:
                ctx.count("decrease_ops")
                if handles[u].parent is not None:
                    ctx.count("decrease_on_inner_node_kept_in_place")
        elif name == "inc":
            live = sorted(model)
            if not live or ismax:
                continue
            u = live[op[1] % len(live)]
            old = model[u]
            new = old + op[2] if keyfn else (old[0] + op[2], old[1])
            try:
                heap.decrease_key(handles[u], new)
                accepted = True
            except ValueError:
                accepted = False
            if ctx is not None:
                ctx.count("refused_key_increases" if not accepted else "key_increases_accepted_by_the_queue")
            if accepted:
                model[u] = new          # (the queue took it: follow it)
            dirty = True
        elif name in ("rem", "thin"):
            live = sorted(model)
            if not live:
                continue
            u = live[op[1] % len(live)]
            if name == "thin":
                u = _thin_choice(heap, handles, live, op[1])
                if u is None:
                    continue            # nothing left to thin (or another representation): no-op
                if ctx is not None:
                    ctx.count("thinning_removes")
            if ctx is not None:
                ctx.count("remove_ops")
                if handles[u].parent is not None:
                    ctx.count("remove_of_inner_node")
                if handles[u].mark:
                    ctx.count("remove_of_marked_node")
            heap.remove(handles[u])
            del model[u]
            del handles[u]
            dirty = True
        # quiescent point: size agreement (the icontract invariant has already run inside each call)
        if ctx is not None and name in ("pop", "peek") and model:
            try:
                deg = max((nd.degree for nd in heap._roots), default=0)
                if deg > len(model).bit_length():
                    ctx.count("pops_or_peeks_with_a_root_of_degree_above_log2_n")
            except AttributeError:
                pass
        if len(heap) != len(model) or bool(heap) != bool(model):
            return {"kind": "size-mismatch", "step": step, "op": op, "len": len(heap), "bool": bool(heap), "live": len(model)}
    # drain: everything left must come out in order
    prev = None
    while model:
        got = heap.pop()
        if not (isinstance(got, tuple) and len(got) == 2 and got[1] in model):
            return {"kind": "returned-non-live-item", "step": "drain", "got": repr(got)}
        gk = model[got[1]]
        if gk != best():
            return {"kind": "not-a-minimum" if not ismax else "not-a-maximum", "step": "drain",
                    "got_key": repr(gk), "best_live_key": repr(best())}
        del model[got[1]]
        if ctx is not None:
            ctx.count("pops_judged")
        if len(heap) != len(model):
            return {"kind": "size-mismatch", "step": "drain", "len": len(heap), "live": len(model)}
    return {"interesting": interesting}


def check_helper(case, ctx):
    """utils.smallest / utils.largest are built on the heaps: n smallest / largest items by key, as a multiset."""
    from graphtage import utils
    import collections
    xs, n = case["xs"], case["n"]
    keyf = {None: None, "neg": (lambda v: -v), "mod3": (lambda v: v % 3)}[case["key"]]
    fn = getattr(utils, case["fn"])
    if case["call"] == "varargs" and len(xs) >= 2:
        got = list(fn(*xs, n=n, key=keyf))
    else:
        got = list(fn(xs, n=n, key=keyf))
    k = keyf or (lambda v: v)
    ordered = sorted(xs, key=k, reverse=case["fn"] == "largest")
    want = ordered[:n]
    if ctx is not None:
        ctx.count("helper_calls")
        ctx.seen(case, nontrivial=len(xs) > n > 0)
    # ties may be broken either way: compare the multisets of keys, and membership
    if collections.Counter(map(k, got)) != collections.Counter(map(k, want)) or (collections.Counter(got) - collections.Counter(xs)):
        return [{"kind": "helper-wrong-selection", "fn": case["fn"], "got": got, "want_keys": [k(v) for v in want]}]
    return []


def check(case, ctx):
    if case.get("kind") == "helper":
        try:
            return check_helper(case, ctx)
        except InvariantBroken as ex:
            return [{"kind": "invariant", "msg": str(ex)[:300]}]
        except Exception as ex:  # noqa
            return [core.exc_diag("exception", ex)]
    before = _INV["n"]
    try:
        res = run_ops(case["kind"], case["ops"], ctx)
    except InvariantBroken as ex:
        return [{"kind": "invariant", "msg": str(ex)[:300]}]
    except Exception as ex:  # noqa
        return [core.exc_diag("exception", ex)]
    if ctx is not None:
        ctx.count("invariant_evaluations", _INV["n"] - before)
        if _INV.get("not_applicable"):
            ctx.count("invariant_not_applicable_to_this_representation", _INV.pop("not_applicable"))
        ctx.count("sequences_" + case["kind"])
        ctx.seen(case, nontrivial=bool(res.get("interesting")))
    if "kind" in res:
        return [res]
    return []


def classify(case, diag):
    return None


def shrink_candidates(case):
    if case.get("kind") == "helper":
        xs = case["xs"]
        for i in range(len(xs)):
            c = dict(case)
            c["xs"] = xs[:i] + xs[i + 1:]
            yield c
        return
    ops = case["ops"]
    for i in range(len(ops)):
        yield {"kind": case["kind"], "ops": ops[:i] + ops[i + 1:]}
    for i, op in enumerate(ops):
        if op[0] == "push" and op[1] > 2:
            yield {"kind": case["kind"], "ops": ops[:i] + [["push", op[1] % 3]] + ops[i + 1:]}


def coverage_extra(counters, tier):
    n = 6 if tier == "quick" else 7
    return {"exhaustive": True,
            "exhaustive_subspaces": f"every op sequence of length <= {n} (first op a push) over keys {{0,1,2}} for "
                                    + ("min-heap with key function and max-heap" if tier == "quick" else "all four heap kinds")}


LEVEL_TEXT = ("Runtime monitoring of the real Fibonacci heaps: a sorted-list reference model is run in lock-step at the public "
              "boundary (size, peek, pop judged after every operation, unique item ids), and an icontract class invariant installed "
              "on FibonacciHeap checks the structure (heap order, ring closure, degree, _n, _min) at every public call. All op "
              "sequences up to length 6 (quick) / 7 (thorough) over a 3-key domain are enumerated; long random sequences with "
              "duplicates and cascading-cut shapes are sampled.")
LEVEL_NOTE = ("Trusted: the sorted-list model and the invariant walker (gv/props/c16.py), icontract. Sequences longer than the bound are "
              "only sampled (<= 200 ops). Amortised complexity (e.g. a missing cascading cut) is not a property and is not judged.")
TECHNIQUE = "runtime monitor: icontract class invariant + sorted-list model in lock-step (exhaustive short op sequences + sampled long)"
