"""C09 — The same data compares as equal regardless of input file format.

Boundary observer on Filetype.build_tree + diff + in-process main(): a datum expressible in JSON,
JSON5, YAML and plist is written by independent serialisers and loaded through each real loader; the
4x4 format matrix is enumerated per datum (equality, zero cost both ways, exit status 0) and per third
document (cost independent of the formats on either side; reference = the JSON/JSON cell)."""
import copy
import itertools

from gv import core, families, formats, gen, monitors
from gv.oracle import val

ID = "C09"
LEVEL = "exploration"
RULE = ("data in the common domain of the four formats (dict/list roots, string keys, str / 64-bit int / non-integral float / bool, no "
        "null, printable text) x every ordered pair of {json, json5, yaml, plist} (all 16 cells per datum) x a subset of build "
        "options, plus a mutated third document for the cost-independence clause; non-trivial = datum has nesting depth >= 2; "
        "distinct = distinct (datum, third document, options)")
ASSUMPTIONS = ["values a format cannot express (null for plist, non-string keys, >64-bit ints) are outside the property and never generated",
               "reference cost = the JSON/JSON cell"]
MINIMUMS = {"quick": {"cells_same_data": 3000, "cells_third_document": 3000, "cli_cells": 1500},
            "thorough": {"cells_same_data": 60000, "cells_third_document": 60000, "cli_cells": 30000}}
FORMATS = ["json", "json5", "yaml", "plist"]


def plan(tier, seed):
    q = tier == "quick"
    ns, per = (8, 40) if q else (16, 350)
    return [{"stratum": "format-matrix", "n": per, "k": k} for k in range(ns)]


def gen_cases(spec, ctx):
    r = ctx.rng
    for i in range(spec["n"]):
        d = formats.common_data(r)
        z = formats.mutate_common(r, d)
        if i % 12 == 5:
            # whole documents that are empty or a single scalar (an empty list / mapping / string, 0, false ...): every one of
            # the four formats can hold them at top level
            d = r.choice([[], {}, 0, False, "", "x", 7, 1.5, True, [[]], {"a": {}}])
            z = r.choice([[], {}, 1, True, "y", [2], {"a": [1, 2], "b": "c"}])
        c = {"d": d, "z": z, "ds": r.choice(gen.DS), "le": r.choice(gen.LE)}
        if i % 12 == 9:
            # a third document that differs only by python-equal scalars of another type (true <-> 1, false <-> 0, 2 <-> 2.0 stays
            # out: plist and YAML keep ints and reals apart): equal for Python, different documents for every format
            d = {"on": True, "off": False, "n": 1, "z": 0, "lst": [True, 1, 0, False, 7], "k": "s"}
            z = {"on": 1 if r.random() < 0.7 else True, "off": 0 if r.random() < 0.7 else False, "n": True if r.random() < 0.5 else 1,
                 "z": False if r.random() < 0.5 else 0, "lst": [1, True, False, 0, 7] if r.random() < 0.7 else [True, 1, 0, False, 7],
                 "k": "s"}
            if z == d and all(type(z[k_]) is type(d[k_]) for k_ in d if k_ != "lst") and [type(x) for x in z["lst"]] == [type(x) for x in d["lst"]]:
                z["on"] = 1
            c.update(d=d, z=z)
        if i % 12 in (7, 11):
            # the same non-empty list / mapping under two keys (YAML writes the second as an alias of the first), a third document
            # that changes the repeated part, and the list options in force
            rep = [r.choice([2, 3, 7, "ab", "xyz"]) for _ in range(r.randint(2, 4))] if r.random() < 0.7 else {"p": [2, 3], "q": "xyz"}
            d = {"base": rep, "copy": copy.deepcopy(rep), "n": 7}
            z = copy.deepcopy(d)
            if isinstance(rep, list):
                z["copy"] = z["copy"][1:] + [r.choice([9, "new"])]
                if r.random() < 0.5:
                    z["base"] = [9] + z["base"]
            else:
                z["copy"]["p"] = [3, 2, 5]
            c.update(d=d, z=z, le=r.choice(["off", "same", "off"]), yv=3)      # yaml variant 3: shared objects -> anchors / aliases
        yield c


def _depth(o):
    if isinstance(o, dict):
        return 1 + max([_depth(v) for v in o.values()] or [0])
    if isinstance(o, list):
        return 1 + max([_depth(v) for v in o] or [0])
    return 0


def check(case, ctx):
    import graphtage
    diags = []
    monitors.TRAP.reset()
    opts = gen.build_options(case["ds"], case["le"])
    from gv.props.c02 import cli_args
    try:
        def wr(f, doc):
            return formats.write(f, doc, variant=case.get("yv") if f == "yaml" else None)
        paths = {f: families.tmpfile(wr(f, case["d"]), f"-d{formats.EXT[f]}") for f in FORMATS}
        zpaths = {f: families.tmpfile(wr(f, case["z"]), f"-z{formats.EXT[f]}") for f in FORMATS}

        def load(f, p):
            return graphtage.FILETYPES_BY_TYPENAME[f].build_tree(p, opts)
        ref_cost = None
        for f1, f2 in itertools.product(FORMATS, repeat=2):
            cell = f"{f1}->{f2}"
            t1, t2 = load(f1, paths[f1]), load(f2, paths[f2])
            plist_second = f2 == "plist" and f1 != "plist"
            problems = []
            if not (t1 == t2):
                problems.append("loaded documents are not ==")
            cost = t1.diff(t2).edited_cost()
            if cost != 0:
                problems.append(f"cost {cost}")
            res = monitors.run_main(["--no-status"] + cli_args(case) + [paths[f1], paths[f2]])
            if res.exc is not None:
                problems.append(f"CLI raised {type(res.exc).__name__}")
            elif res.rc != 0:
                problems.append(f"CLI exit status {res.rc}")
            if ctx is not None:
                ctx.count("cells_same_data")
                ctx.count("cli_cells")
                ctx.count("cell:" + cell)
            if problems:
                diags.append({"kind": "same-data-differs-across-formats", "cell": cell, "problems": problems,
                              "plist_second": plist_second, "both_plist": f1 == f2 == "plist",
                              "values_agree": val(_unwrap(t1)) == val(_unwrap(t2))})
            # third document: cost independent of the formats
            t1b, z2 = load(f1, paths[f1]), load(f2, zpaths[f2])
            c3 = t1b.diff(z2).edited_cost()
            if ctx is not None:
                ctx.count("cells_third_document")
            if ref_cost is None:
                ref_cost = c3        # (json, json) comes first in the product
            elif c3 != ref_cost:
                diags.append({"kind": "cost-depends-on-format", "cell": cell, "cost": c3, "json_json_cost": ref_cost,
                              "plist_second": plist_second})
    except Exception as ex:  # noqa
        diags.append(core.exc_diag("exception", ex))
    if ctx is not None:
        ctx.seen(case, nontrivial=_depth(case["d"]) >= 2)
    return diags


def _unwrap(t):
    from graphtage.plist import PLISTNode
    return t.root if isinstance(t, PLISTNode) else t


def classify(case, diag):
    if diag.get("plist_second") and diag["kind"] in ("same-data-differs-across-formats", "cost-depends-on-format"):
        return "plist-wrapper-not-unwrapped-as-second-document"
    return None


def shrink_candidates(case):
    for s in gen.shrink_doc(case["d"]):
        if isinstance(s, (dict, list)):
            c = dict(case)
            c["d"] = s
            yield c
    for s in gen.shrink_doc(case["z"]):
        if isinstance(s, (dict, list)):
            c = dict(case)
            c["z"] = s
            yield c


def coverage_extra(counters, tier):
    return {"cells_visited": {k[5:]: v for k, v in counters.items() if k.startswith("cell:")},
            "exhaustive_subspaces": "all 16 ordered format pairs for every datum"}


LEVEL_TEXT = ("Runtime monitoring at the loader/CLI boundary: every generated datum of the formats' common domain is written by "
              "json.dumps, yaml.safe_dump and plistlib.dumps, loaded by the real loaders, and all 16 ordered format pairs are "
              "checked for equality, zero cost, exit status 0 and (against a mutated third document) a cost that does not depend "
              "on either format.")
LEVEL_NOTE = ("Trusted: the stdlib / PyYAML writers. Only the four formats named by the property; values outside their common domain "
              "are not generated.")
TECHNIQUE = "runtime monitor: 4x4 format matrix per datum via independent writers and real loaders (library + in-process CLI)"
