"""C11 — String changes are minimal (kept characters form a longest common subsequence).

Monitor: the real StringNode.edits / TreeNode.diff is driven three ways; the character script is
read back and judged against a textbook LCS dynamic program run in lock-step on the same pair."""
import itertools

from gv import core
from gv.oracle import lcs_len

ID = "C11"
LEVEL = "exploration"
RULE = ("pairs (s,t) of strings: exhaustive over small alphabets/lengths plus sampled long strings "
        "(shared prefixes/suffixes, repeats, non-BMP) and long mostly unrelated strings (100-300 characters, lengths and distances around "
        "127/128 and 255/256); non-trivial = s != t and both non-empty; "
        "distinct = distinct (s,t,drive mode)")
ASSUMPTIONS = ["reference = textbook LCS DP (gv/oracle.py:lcs_len)",
               "a Match between unequal characters counts as one removed plus one inserted character"]
MINIMUMS = {"quick": {"scripts_read_after_a_partial_read": 1000, "comparisons_reusing_a_source_node": 2000, "long_string_scripts_with_distance_over_255": 20, "scripts_judged": 60000, "string_edits": 50000, "renderings_judged": 2000},
            "thorough": {"comparisons_reusing_a_source_node": 30000, "long_string_scripts_with_distance_over_255": 300, "scripts_judged": 500000, "string_edits": 400000}}


def _strings(alphabet, maxlen):
    out = [""]
    for n in range(1, maxlen + 1):
        out.extend("".join(p) for p in itertools.product(alphabet, repeat=n))
    return out


def plan(tier, seed):
    specs = []
    if tier == "quick":
        ex = [("ab", 7)]
        nshard, nsample, per = 14, 2, 900
    else:
        ex = [("ab", 8), ("abc", 5)]
        nshard, nsample, per = 16, 16, 6000
    for alpha, ml in ex:
        for k in range(nshard):
            specs.append({"stratum": f"exhaustive-{alpha}-le{ml}", "alphabet": alpha, "maxlen": ml,
                          "k": k, "of": nshard, "exhaustive": True, "shard_timeout": 3000})
    for k in range(nsample):
        specs.append({"stratum": "sampled", "n": per, "k": k})
    for k in range(6 if tier == "quick" else 16):
        specs.append({"stratum": "long-strings-across-small-integer-widths", "n": 8 if tier == "quick" else 50, "k": k, "long": True,
                      "case_timeout": 120, "shrink": False})
    for k in range(2 if tier == "quick" else 8):
        specs.append({"stratum": "one-source-node-many-targets", "n": 500 if tier == "quick" else 8000, "k": k, "shared": True})
    for k in range(2 if tier == "quick" else 8):
        specs.append({"stratum": "rendered-marks", "n": 1500 if tier == "quick" else 20000, "k": k, "rendered": True})
    return specs


ALPHABETS = ["ab", "abc", "abcd", "aab", "xy\U0001F600", "a̶̟", "01"]


def gen_cases(spec, ctx):
    if spec.get("exhaustive"):
        ss = _strings(spec["alphabet"], spec["maxlen"])
        n = len(ss)
        idx = 0
        for i in range(n):
            for j in range(n):
                if idx % spec["of"] == spec["k"]:
                    yield {"s": ss[i], "t": ss[j], "mode": idx % 3}
                idx += 1
        return
    r = ctx.rng
    if spec.get("long"):
        # magnitude: mostly unrelated strings whose lengths and distances straddle 127/128 and 255/256 (the limits of 8-bit
        # cells), with a few common islands so that the longest common subsequence is not empty and sits behind many edits
        for _ in range(spec["n"]):
            la, lb = (r.choice([100, 126, 127, 128, 129, 200, 254, 255, 256, 257, 300]) for _ in range(2))
            A, B = r.choice([("ab", "cd"), ("a", "b"), ("abc", "abd"), ("xy", "yz")])
            s = [r.choice(A) for _ in range(la)]
            t = [r.choice(B) for _ in range(lb)]
            for _ in range(r.randint(1, 3)):
                isl = r.choice(["HELLO", "Q", "WXYZ", "12"])
                i = r.choice([0, r.randint(0, la), max(0, la - len(isl) - 1), la])
                j = r.choice([0, r.randint(0, lb), max(0, lb - len(isl) - 1), lb])
                s[i:i] = isl
                t[j:j] = isl
            yield {"s": "".join(s), "t": "".join(t), "mode": r.randrange(3)}
        return
    if spec.get("shared"):
        # history: one source node is compared with several targets one after the other, each target living only for its own
        # comparison ("compare this base document with each of these"); targets of equal length follow each other so that a
        # freed target's memory is the likeliest home of the next one
        for _ in range(spec["n"]):
            al = r.choice(["ab", "abc", "abcd"])
            s = "".join(r.choice(al) for _ in range(r.randint(1, 10)))
            ln = r.randint(0, 10)
            ts = ["".join(r.choice(al) for _ in range(ln if r.random() < 0.7 else r.randint(0, 10))) for _ in range(r.randint(2, 5))]
            yield {"s": s, "ts": ts, "mode": r.randrange(3), "shared": True}
        return
    if spec.get("rendered"):
        for _ in range(spec["n"]):
            al = r.choice(["ab", "abc", "abcd", "01"])
            s = "".join(r.choice(al) for _ in range(r.randint(0, 12)))
            t = "".join(r.choice(al) for _ in range(r.randint(0, 12)))
            if r.random() < 0.5 and s:
                i = r.randrange(len(s))
                t = s[:i] + r.choice(["", "x", "ab"]) + s[i + r.randint(0, 2):]
            yield {"s": s, "t": t, "mode": 3}
        return
    for _ in range(spec["n"]):
        al = r.choice(ALPHABETS)
        def rs(maxlen):
            return "".join(r.choice(al) for _ in range(r.choice([0, 1, 2, 3, 5, 8, 13, 21, maxlen])))
        s = rs(40)
        kind = r.random()
        if kind < 0.4:   # mutate s
            t = list(s)
            for _ in range(r.randint(1, 5)):
                op = r.random()
                if t and op < 0.35:
                    del t[r.randrange(len(t))]
                elif op < 0.7:
                    t.insert(r.randint(0, len(t)), r.choice(al))
                elif t:
                    t[r.randrange(len(t))] = r.choice(al)
            t = "".join(t)
        elif kind < 0.6:  # shared prefix / suffix
            p, q = rs(10), rs(10)
            s, t = p + rs(12) + q, p + rs(12) + q
        elif kind < 0.7:  # rotation / reversal
            k = r.randint(0, len(s))
            t = s[k:] + s[:k] if r.random() < 0.5 else s[::-1]
        elif kind < 0.8:  # repeats
            u = rs(3) or "a"
            s, t = u * r.randint(1, 8), u * r.randint(0, 8) + rs(2)
        else:
            t = rs(40)
        for mode in (0, 1, 2, 4):
            yield {"s": s, "t": t, "mode": mode}


def script_of(s, t, mode, ctx=None, source=None):
    """Returns list of (kind, a_char, b_char) read from the real script."""
    import graphtage
    from graphtage import edits as ge
    a, b = (source if source is not None else graphtage.StringNode(s)), graphtage.StringNode(t)
    if mode == 2:
        d = a.diff(b)
        e = d.edit
    else:
        e = a.edits(b)
        if mode in (1, 4):
            while e.tighten_bounds():
                pass
    if isinstance(e, graphtage.StringEdit):
        if ctx is not None:
            ctx.count("string_edits")
        if mode == 4:
            # a first reader of the script stops part-way (as a formatter looking for the first line break does); the next reader
            # must still get the whole script
            it = e.edit_distance.edits()
            for _ in range(1 + (len(s) + len(t)) % 4):
                if next(it, None) is None:
                    break
            del it
            if ctx is not None:
                ctx.count("scripts_read_after_a_partial_read")
        subs = list(e.edit_distance.edits())
        out = []
        for se in subs:
            if isinstance(se, ge.Match):
                out.append(("M", se.from_node.object, se.to_node.object))
            elif isinstance(se, ge.Remove):
                out.append(("R", se.from_node.object, None))
            elif isinstance(se, ge.Insert):
                out.append(("I", None, se.from_node.object))
            else:
                out.append(("?", type(se).__name__, None))
        while e.tighten_bounds():
            pass
        cost = e.bounds()
        return out, (cost.lower_bound, cost.upper_bound)
    if isinstance(e, ge.Match):
        if ctx is not None:
            ctx.count("whole_string_match")
        b_ = e.bounds()
        # a whole-string Match: every character kept (equal strings) or all replaced (1 vs 1 char)
        if e.from_node.object == e.to_node.object:
            return [("M", c, c) for c in s], (b_.lower_bound, b_.upper_bound)
        return [("M", s, t)], (b_.lower_bound, b_.upper_bound)
    return [("?", type(e).__name__, None)], (None, None)


def check_rendered(case, ctx):
    """What the user sees: in the colour rendering of the JSON formatter, the characters of the string literal that
    carry no mark must number LCS(s,t), the removed ones |s|-LCS, the inserted ones |t|-LCS."""
    import io
    import graphtage
    import graphtage.json as gj
    import graphtage.printer as gp
    from gv import oracle
    s, t = case["s"], case["t"]
    out = io.StringIO()
    p = gp.Printer(out_stream=out, ansi_color=True, quiet=True)
    with p:
        gj.JSONFormatter.DEFAULT_INSTANCE.print(p, graphtage.StringNode(s).diff(graphtage.StringNode(t)))
    dec = oracle.ansi_decode(out.getvalue())
    body = [(c, cls) for c, cls, sep in dec if not sep and c != '"']
    kept = sum(1 for c, cls in body if cls == "common")
    removed = sum(1 for c, cls in body if cls == "removed")
    inserted = sum(1 for c, cls in body if cls == "inserted")
    ref = lcs_len(s, t)
    if ctx is not None:
        ctx.count("renderings_judged")
        ctx.seen(case, nontrivial=(s != t and bool(s) and bool(t)))
    if (kept, removed, inserted) != (ref, len(s) - ref, len(t) - ref):
        return [{"kind": "rendered-marks-not-minimal", "kept": kept, "removed": removed, "inserted": inserted, "lcs": ref,
                 "text": out.getvalue()[:200]}]
    return []


_GC = [0]


def check_shared(case, ctx):
    import gc
    import graphtage
    src = graphtage.StringNode(case["s"])
    diags = []
    for i, t in enumerate(case["ts"]):
        sub = {"s": case["s"], "t": t, "mode": case["mode"]}
        d = _judge(sub, ctx, source=src, seen=False)
        _GC[0] += 1
        if _GC[0] % 8 == 0:
            gc.collect()
        if ctx is not None:
            ctx.count("comparisons_reusing_a_source_node")
        if d:
            for x in d:
                x["step"] = i
                x["targets_so_far"] = case["ts"][:i + 1]
            diags.extend(d)
            break
    if ctx is not None:
        ctx.seen(case, nontrivial=True)
    return diags


def check(case, ctx):
    if case.get("shared"):
        try:
            return check_shared(case, ctx)
        except Exception as ex:  # noqa
            return [core.exc_diag("exception", ex)]
    return _judge(case, ctx)


def _judge(case, ctx, source=None, seen=True):
    if case["mode"] == 3:
        try:
            return check_rendered(case, ctx)
        except Exception as ex:  # noqa
            return [core.exc_diag("exception", ex)]
    s, t, mode = case["s"], case["t"], case["mode"]
    try:
        script, cost = script_of(s, t, mode, ctx, source=source)
    except Exception as ex:  # noqa
        return [core.exc_diag("exception", ex)]
    diags = []
    A = "".join(a for k, a, b in script if a is not None)
    B = "".join(b for k, a, b in script if b is not None)
    kept = sum(1 for k, a, b in script if k == "M" and a == b)
    subs = sum(1 for k, a, b in script if k == "M" and a != b)
    if any(k == "?" or (k == "M" and (len(a) != 1 or len(b) != 1)) for k, a, b in script):
        diags.append({"kind": "unknown-edit", "script": script[:20]})
    if A != s or B != t:
        diags.append({"kind": "misspelt", "A": A, "B": B})
    ref = lcs_len(s, t)
    if kept != ref:
        diags.append({"kind": "not-lcs", "kept": kept, "lcs": ref,
                      "script": "".join(k if k != "M" else ("=" if a == b else "x") for k, a, b in script)})
    unit = sum(1 for k, a, b in script if k in "RI") + subs
    if cost[0] is None or cost[0] != cost[1] or cost[0] != unit:
        # every removed / inserted / substituted character costs exactly 1
        diags.append({"kind": "cost-mismatch", "cost": list(cost), "expected": unit})
    if ctx is not None:
        ctx.count("scripts_judged")
        ctx.count(f"mode{mode}")
        if kept < min(len(s), len(t)):
            ctx.count("lcs_shorter_than_both")
        if len(s) + len(t) - 2 * ref > 255:
            ctx.count("long_string_scripts_with_distance_over_255")
        if seen:
            ctx.seen(case, nontrivial=(s != t and bool(s) and bool(t)))
    return diags


def classify(case, diag):
    return None


def shrink_candidates(case):
    if case.get("shared"):
        for i in range(len(case["ts"])):
            if len(case["ts"]) > 1:
                yield dict(case, ts=case["ts"][:i] + case["ts"][i + 1:])
        return
    s, t, mode = case["s"], case["t"], case["mode"]
    for i in range(len(s)):
        yield {"s": s[:i] + s[i + 1:], "t": t, "mode": mode}
    for i in range(len(t)):
        yield {"s": s, "t": t[:i] + t[i + 1:], "mode": mode}


def coverage_extra(counters, tier):
    return {"exhaustive": True,
            "exhaustive_subspaces": ("all ordered pairs over {a,b}^<=7" if tier == "quick"
                                     else "all ordered pairs over {a,b}^<=8 and {a,b,c}^<=5")}

LEVEL_TEXT = ("Runtime monitoring of the real string-edit code: every generated pair is executed three ways "
              "(edits(), tighten-then-edits(), TreeNode.diff) and its character script is judged against an independent LCS "
              "dynamic program. The space of all ordered pairs over a 2-letter alphabet up to length 7 (quick) / 8 plus a "
              "3-letter alphabet up to length 5 (thorough) is enumerated completely; longer strings are sampled. Held-on-what-was-"
              "executed, not a proof for all strings.")
LEVEL_NOTE = ("Trusted: the textbook LCS reference (gv/oracle.py), CPython, numpy. Strings beyond the enumerated lengths are "
              "only sampled (length <= 40, alphabets of 2-4 symbols incl. non-BMP and combining characters).")
TECHNIQUE = "runtime monitor: real edit script vs LCS reference model in lock-step (exhaustive small + sampled)"
