"""C01 — The edit script turns the first document into the second.

Monitors: (M1) script reconstruction — the fully refined script of the real edit is interpreted
("what does it say about document A / document B") and compared with the generated data; (M2) the
annotations TreeNode.diff leaves on the edited copy (removed / inserted / matched_to) must agree
node-for-node with the script, and the edited copy minus insertions must equal the first document;
(M3) both input trees are snapshotted before/after."""
import collections
import itertools

from gv import core, families, gen, monitors
from gv.oracle import recon, val, fold_number_twins as fold

ID = "C01"
LEVEL = "exploration"
RULE = ("pairs of trees x {auto,match,none} x {list edits on,off,off-when-same-length}: related/identical/unrelated JSON-like "
        "documents (hostile scalars, empty/duplicate/equal-prefix containers), BasicBuilder values (tuples, sets, mixed keys), API "
        "multisets with duplicates, XML elements, CSV tables, plist, dataclass and PyObj trees; exhaustive over tiny lists and "
        "dicts x all 9 option combinations; non-trivial = the refined script contains a non-Match edit; distinct = distinct case")
ASSUMPTIONS = ["reference = gv/oracle.py:recon (one clause per edit kind) and canon() of the generated Python data",
               "which of several valid scripts is chosen, and its cost, are not judged here (C03/C11)"]
MINIMUMS = {"quick": {"m1_judged": 20000, "m2_judged": 20000, "compound_scripts": 8000},
            "thorough": {"m1_judged": 400000, "m2_judged": 400000, "compound_scripts": 150000}}


def plan(tier, seed):
    specs = []
    q = tier == "quick"
    n_json, per_json = (10, 300) if q else (16, 3500)
    for k in range(n_json):
        specs.append({"stratum": "json-x9-options", "family": "json", "n": per_json, "k": k, "all_options": True, "clean": True})
    per_f = 400 if q else 6000
    for fam in ["basic", "xml", "csv", "plist", "dataclass", "pyobj"]:
        for k in range(1 if q else 2):
            specs.append({"stratum": f"family-{fam}", "family": fam, "n": per_f, "k": k, "clean": True})
    specs.append({"stratum": "family-mset-nodup", "family": "mset", "n": per_f, "k": 0, "clean": True, "nodup": True})
    specs.append({"stratum": "family-mset-dup", "family": "mset", "n": per_f, "k": 0, "case_timeout": 10})
    for k in range(2 if q else 8):
        specs.append({"stratum": "json-big-costs", "family": "json", "n": 8 if q else 40, "k": k, "clean": True, "bigcost": True,
                      "case_timeout": 120, "shrink": False})
    for k in range(2 if q else 8):
        specs.append({"stratum": "json-deep-and-wide", "family": "json", "n": 20 if q else 120, "k": k, "clean": True, "deepwide": True,
                      "case_timeout": 240, "shrink": False})
    if not q:
        for k in range(8):
            specs.append({"stratum": "json-large-documents", "family": "json", "n": 250, "k": k, "clean": True, "profile": "large",
                          "case_timeout": 120})
    nsh = 4 if q else 12
    for k in range(nsh):
        specs.append({"stratum": "exhaustive-tiny", "exhaustive": True, "k": k, "of": nsh, "clean": True,
                      "maxlen": 2 if q else 3, "shrink": False, "shard_timeout": 3000})
    return specs


def _tiny_docs(maxlen):
    elems = [0, 1, "a", [0]]
    lists = []
    for n in range(0, maxlen + 1):
        lists.extend(list(p) for p in itertools.product(elems, repeat=n))
    dicts = []
    for keys in itertools.chain.from_iterable(itertools.combinations("abc", n) for n in range(0, 4)):
        for vals in itertools.product([0, 1], repeat=len(keys)):
            dicts.append(dict(zip(keys, vals)))
    return lists, dicts


def gen_cases(spec, ctx):
    r = ctx.rng
    if spec.get("exhaustive"):
        lists, dicts = _tiny_docs(spec["maxlen"])
        idx = 0
        for group in (lists, dicts):
            for a in group:
                for b in group:
                    if idx % spec["of"] == spec["k"]:
                        for ds, le in gen.OPTION_GRID:
                            yield {"family": "json", "a": a, "b": b, "ds": ds, "le": le}
                    idx += 1
        return
    if spec.get("bigcost"):
        # accumulated costs that cross the boundaries of small integer types (2**16): long lists of long strings that are
        # truncated / extended / lightly edited (cheap to diff: equal prefixes and suffixes are shared)
        for _ in range(spec["n"]):
            n = r.choice([300, 400, 700])
            ln = r.choice([120, 200, 260])
            base = ["".join(r.choice("abcdefgh") for _ in range(ln)) for _ in range(n)]
            kind = r.choice(["truncate", "extend", "cut-middle"])
            if kind == "truncate":
                a, b = base, base[:r.randint(0, n // 3)]
            elif kind == "extend":
                a, b = base[:r.randint(0, n // 3)], base
            elif kind == "cut-middle":
                i = r.randint(0, n // 4)
                a, b = base, base[:i] + base[-i - 1:]
            if r.random() < 0.5:
                a, b = {"rows": a, "meta": 1}, {"rows": b, "meta": 1}
            # (positional comparison of a list cut in the middle would pair hundreds of unrelated long strings: keep it cheap)
            ds, le = r.choice(gen.DS), ("on" if kind == "cut-middle" else r.choice(["on", "off"]))
            yield {"family": "json", "a": a, "b": b, "ds": ds, "le": le}
        return
    if spec.get("deepwide"):
        # sizes beyond a handful of elements: chains nested 12-26 levels deep, lists of 100-400 scalars, mappings of 100-300 keys,
        # each with a few local edits (cheap to diff; recursion depth, matrix sizes and matching sizes are what is exercised)
        for _ in range(spec["n"]):
            kind = r.choice(["deep", "deep", "wide-list", "wide-dict"])
            if kind == "deep":
                n = r.randint(12, 26)
                at = r.randint(0, n - 1)
                def chain(leaf, extra):
                    o = leaf
                    for i in range(n):
                        if i % 2:
                            o = [o, i] + (extra if i == at else [])
                        else:
                            o = {"k": o, "j": i, **({"x": extra} if i == at and extra else {})}
                    return o
                a = chain(r.choice(["x", 2, [], {}]), [])
                b = chain(r.choice(["x", "y", 3, [2], {"q": 2}]), r.choice([[], ["new"], [[2, 3]]]))
            elif kind == "wide-list":
                n = r.choice([100, 150, 250, 400])
                pool = r.choice([list(range(2, 12)), ["a", "b", "ab", "ba", "abc"], list(range(2, 200))])
                a = [r.choice(pool) for _ in range(n)]
                b = list(a)
                for _ in range(r.randint(1, 6)):
                    x = r.random()
                    i = r.randrange(len(b))
                    if x < 0.3:
                        del b[i]
                    elif x < 0.6:
                        b.insert(i, r.choice(pool + ["new"]))
                    elif x < 0.85:
                        b[i] = r.choice(pool + [[2, 3]])
                    else:
                        j = r.randrange(len(b))
                        b[i], b[j] = b[j], b[i]
            else:
                n = r.choice([100, 200, 300])
                a = {f"k{i:03d}": r.choice([2, 3, "a", "ab", [2], {"z": 2}]) for i in range(n)}
                b = dict(a)
                for _ in range(r.randint(1, 6)):
                    k = r.choice(list(b))
                    x = r.random()
                    if x < 0.3:
                        del b[k]
                    elif x < 0.55:
                        b[k + "x"] = b.pop(k)
                    elif x < 0.8:
                        b[k] = r.choice([5, "abc", [2, 3], None])
                    else:
                        b["new%d" % r.randrange(10)] = r.choice([2, "a"])
            if r.random() < 0.3:
                a, b = b, a
            ds = r.choice(gen.DS) if kind != "wide-dict" else r.choice(["auto", "auto", "none", "match"])
            le = r.choice(gen.LE)
            if kind == "deep" and ds == "none" and le != "on" and n > 16:
                # (observed, outside every listed property: with key edits and list edits both off, the time graphtage needs
                # doubles with every two levels of nesting -- 30 levels take seconds, 60 would take days)
                le = "on"
            if kind == "wide-dict" and ds == "match" and len(a) > 100:
                ds = "auto"          # (a 300 x 300 assignment over compound edits is minutes of work, not a different code path)
            yield {"family": "json", "a": a, "b": b, "ds": ds, "le": le}
        return
    fam = spec["family"]
    prof = gen.LARGE if spec.get("profile") == "large" else None
    for _ in range(spec["n"]):
        case = families.gen_case(r, fam, prof=prof)
        if fam == "mset":
            has_dup = any(len(x) != len({core.jdump(v) for v in x}) for x in (case["a"], case["b"]))
            if spec.get("nodup") and has_dup:
                case["a"] = _dedupe(case["a"])
                case["b"] = _dedupe(case["b"])
        if spec.get("all_options"):
            for ds, le in gen.OPTION_GRID:
                c = dict(case)
                c["ds"], c["le"] = ds, le
                yield c
        else:
            yield case


def _dedupe(xs):
    seen, out = set(), []
    for v in xs:
        k = core.jdump(v)
        if k not in seen:
            seen.add(k)
            out.append(v)
    return out


def check(case, ctx):
    from graphtage import edits as ge
    diags = []
    monitors.TRAP.reset()
    try:
        ta, tb = families.build(case)
    except Exception as ex:  # noqa
        return [core.exc_diag("build-exception", ex)]
    va, vb = val(ta), val(tb)
    truth_a, truth_b = families.truth(case)
    if truth_a is not None and (truth_a != va or truth_b != vb):
        if ctx is not None:
            ctx.count("builder_disagrees_with_data (judged by C18, not here)")
        truth_a, truth_b = va, vb
    # ---- M1: script reconstruction -----------------------------------------------------------
    nontrivial = False
    try:
        e = monitors.full(ta.edits(tb))
        A, B = recon(e)
        # (mset() orders by repr, so fold before comparing multisets would re-order: compare folded forms built the same way)
        if _fold(A) != _fold(va):
            diags.append({"kind": "script-does-not-reproduce-first", "edit": type(e).__name__, **_first_diff(_fold(A), _fold(va))})
        if _fold(B) != _fold(vb):
            diags.append({"kind": "script-does-not-reproduce-second", "edit": type(e).__name__, **_first_diff(_fold(B), _fold(vb))})
        kinds = collections.Counter(type(x).__name__ for x in monitors.walk_script(e))
        nontrivial = any(k != "Match" for k in kinds)
        # "kept" means unchanged: a Match that costs nothing marks nothing, so discarding what is marked removed leaves its
        # first-document value standing where the second document has another one
        for x in monitors.walk_script(e):
            if type(x) is ge.Match and x.to_node is not None and type(x.from_node).__name__ != "PLISTNode":
                # (the plist wrapper's collection lists a zero-cost Match of the wrapper with itself next to the edit of its root)
                b_ = x.bounds()
                if b_.upper_bound == 0:
                    if ctx is not None:
                        ctx.count("zero_cost_matches_checked")
                    if _fold(val(x.from_node)) != _fold(val(x.to_node)):
                        diags.append({"kind": "changed-element-reported-as-kept", "from": repr(val(x.from_node))[:120],
                                      "to": repr(val(x.to_node))[:120]})
                        break
        if ctx is not None:
            ctx.count("m1_judged")
            if monitors.sub_edits(e) is not None:
                ctx.count("compound_scripts")
            for k, n in kinds.items():
                ctx.count("edit:" + k, n)
    except core.Budget as ex:
        diags.append({"kind": "step-budget", "msg": str(ex)})
    except Exception as ex:  # noqa
        diags.append(core.exc_diag("script-exception", ex))
    # ---- M2: annotations on the diff tree ------------------------------------------------------
    try:
        d = ta.diff(tb)
        if _fold(val(d)) != _fold(va):
            diags.append({"kind": "edited-copy-differs-from-first", **_first_diff(_fold(val(d)), _fold(va))})
        # the root's edit_list holds every edit assigned to it (for the plist wrapper: the collection *and* the
        # zero-cost Match it lists for itself, which is what .edit ends up pointing at)
        script, seen_ids = None, set()
        for top in getattr(d, "edit_list", None) or ([d.edit] if getattr(d, "edit", None) is not None else []):
            script = script or []
            for x in monitors.walk_script(top):
                if id(x) not in seen_ids:
                    seen_ids.add(id(x))
                    script.append(x)
        if script is None:
            diags.append({"kind": "diff-root-has-no-edit"})
        else:
            exp_removed = collections.Counter(id(x.from_node) for x in script if isinstance(x, ge.Remove))
            exp_inserted = collections.Counter((id(x.to_node), id(x.from_node)) for x in script if isinstance(x, ge.Insert))
            exp_matched = {id(x.from_node): id(x.to_node) for x in script if isinstance(x, ge.Match)}
            nodes = {}
            stack = [d]
            while stack:
                n = stack.pop()
                if id(n) in nodes:
                    continue
                nodes[id(n)] = n
                stack.extend(n.children())
            # script nodes that live outside children() (e.g. nothing today) would be missed: count them
            act_removed = collections.Counter(i for i, n in nodes.items() if getattr(n, "removed", False))
            act_inserted = collections.Counter((i, id(x)) for i, n in nodes.items() for x in getattr(n, "inserted", ()))
            act_matched = {i: id(n.matched_to) for i, n in nodes.items() if getattr(n, "matched_to", None) is not None}
            if set(exp_removed) != set(act_removed):
                diags.append({"kind": "removed-flags-disagree-with-script",
                              "script_only": len(set(exp_removed) - set(act_removed)),
                              "tree_only": len(set(act_removed) - set(exp_removed))})
            if any(c > 1 for c in exp_removed.values()):
                diags.append({"kind": "node-removed-twice-in-script", "n": sum(1 for c in exp_removed.values() if c > 1)})
            if exp_inserted != act_inserted:
                diags.append({"kind": "inserted-lists-disagree-with-script",
                              "script": sum(exp_inserted.values()), "tree": sum(act_inserted.values())})
            if exp_matched != act_matched:
                diags.append({"kind": "matched_to-disagrees-with-script",
                              "script": len(exp_matched), "tree": len(act_matched)})
        if ctx is not None:
            ctx.count("m2_judged")
    except core.Budget as ex:
        diags.append({"kind": "step-budget", "msg": str(ex)})
    except Exception as ex:  # noqa
        diags.append(core.exc_diag("diff-exception", ex))
    # ---- M3: inputs untouched ----------------------------------------------------------------------
    if val(ta) != va or val(tb) != vb:
        diags.append({"kind": "input-tree-mutated"})
    if ctx is not None:
        ctx.count("family:" + case["family"])
        ctx.count(f"options:{case.get('ds')}/{case.get('le')}")
        ctx.seen(case, nontrivial)
    return diags


def _fold(v):
    """Fold int/float twins, then re-canonicalise the multiset containers (their item order depends on the items)."""
    v = fold(v)
    return _resort(v)


def _resort(v):
    if isinstance(v, tuple):
        if len(v) == 2 and v[0] in ("D", "M") and isinstance(v[1], tuple):
            import collections
            c = collections.Counter()
            for item, n in v[1]:
                c[_resort(item)] += n
            return (v[0], tuple(sorted(c.items(), key=repr)))
        return tuple(_resort(x) for x in v)
    return v


def _first_diff(got, want):
    """Locate the first structural difference for the diagnosis."""
    path = []
    while isinstance(got, tuple) and isinstance(want, tuple) and len(got) == len(want) and got[:1] == want[:1]:
        moved = False
        for i, (g, w) in enumerate(zip(got, want)):
            if g != w:
                path.append(i)
                got, want = g, w
                moved = True
                break
        if not moved:
            break
    return {"at": path[:12], "got": repr(got)[:160], "want": repr(want)[:160]}


def classify(case, diag):
    if case["family"] == "mset":
        dup = any(len(x) != len({core.jdump(v) for v in x}) for x in (case["a"], case["b"]))
        if dup and diag["kind"] in ("removed-flags-disagree-with-script", "node-removed-twice-in-script",
                                    "inserted-lists-disagree-with-script", "matched_to-disagrees-with-script",
                                    "script-does-not-reproduce-first", "script-does-not-reproduce-second", "step-budget"):
            return "multiset-duplicates-collapse"
    return None


def shrink_candidates(case):
    yield from families.shrink_case(case)


def coverage_extra(counters, tier):
    return {"exhaustive": True,
            "exhaustive_subspaces": "all ordered pairs of lists over {0,1,'a',[0]} of length <= %d and of dicts over keys "
                                    "{a,b,c} x values {0,1}, each under all 9 option combinations" % (2 if tier == "quick" else 3)}


LEVEL_TEXT = ("Runtime monitoring of the real diff engine on generated and exhaustively enumerated tree pairs under all nine build-option "
              "combinations: the refined script is re-interpreted into the two documents it claims to relate and compared with the "
              "generated data (every element accounted exactly once, list order kept), and the removed/inserted/matched annotations on the "
              "diff tree must agree node-for-node with that script.")
LEVEL_NOTE = ("Trusted: the script interpreter gv/oracle.py:recon and canon(). Covers JSON-like, BasicBuilder, multiset, XML, CSV, plist, "
              "dataclass and PyObj trees; sizes are bounded (depth <= 3, width <= 6) outside the exhaustive tiny sub-space.")
TECHNIQUE = "runtime monitor: script reconstruction vs generated ground truth + annotation/script agreement on TreeNode.diff"
