"""C02 — No edits are reported exactly when the two documents are equal.

Oracle: type-strict structural equality of the generated data (gv/oracle.py:typed_eq).
Observations on the real code per pair x options: library cost, the CLI's own 'had edits' rule
recomputed on the diff tree, main() return value in-process on files written by independent
serialisers, change marks in the colour rendering, and a sample of real subprocesses."""
import collections
import copy
import itertools
import json
import os
import subprocess
import sys

from gv import core, families, gen, monitors
from gv.oracle import typed_eq, has_int_float_twin

ID = "C02"
LEVEL = "exploration"
RULE = ("pairs of documents: equal pairs (same data, permuted keys, rebuilt trees), one-atom pairs (one scalar's type, one character, "
        "one empty string, one key, one list position), arbitrary related/unrelated pairs, an exhaustive scalar x scalar table over "
        "the hostile scalar set (bare, inside a list, inside a dict value), XML and CSV pairs; x dictionary strategies x list "
        "options x {library, in-process CLI, subprocess CLI}; non-trivial = the two documents are unequal yet share structure "
        "(one-atom or related) or are equal with permuted keys; distinct = distinct case")
ASSUMPTIONS = ["int vs float with the same numeric value is UNDETERMINED (JSON calls both 'number'): such pairs are never judged",
               "NaN is never generated",
               "XML equality is the notion stated in C12 (text modulo surrounding whitespace); CSV pairs avoid blank-row-only tables"]
MINIMUMS = {"quick": {"binary:different": 200, "cli_on_a_terminal": 250, "equal_pairs": 700, "unequal_pairs": 4000, "cli_inprocess": 2500, "subprocess_runs": 24, "one_atom_pairs": 500},
            "thorough": {"cli_on_a_terminal": 2000, "equal_pairs": 8000, "unequal_pairs": 50000, "cli_inprocess": 25000, "subprocess_runs": 300,
                         "one_atom_pairs": 8000}}

SCALARS = [0, 1, 2, -1, 10, 255, 256, 2**31, 2**53, 2**64, 10**30, 1.5, -0.5, 2.25, 1e308, 5e-324, 1e-7, True, False, None,
           "", " ", "a", "b", "ab", "ba", "1", "0", "2", "1.5", "-1", "True", "False", "None", "null", "true", "false", "[]", "{}",
           '"', "\\", "\n", "\t", "\x00", " -> ", "~~", "++", "̶", "̟", "\x1b[31m", "\U0001F600", "é", "10", "256", "1e308",
           "2.25", "a b", "A", "[1]", '{"a": 1}']


def plan(tier, seed):
    q = tier == "quick"
    specs = []
    ns, per = (8, 180) if q else (16, 2500)
    for k in range(ns):
        specs.append({"stratum": "pairs", "n": per, "k": k, "clean": True})
    nsh = 4 if q else 8
    for k in range(nsh):
        specs.append({"stratum": "exhaustive-scalar-table", "exhaustive": True, "k": k, "of": nsh, "clean": True, "shrink": False,
                      "cli_every": 3 if q else 1})
    specs.append({"stratum": "xml-csv", "n": 300 if q else 6000, "k": 0, "clean": True})
    for k in range(2 if q else 4):
        specs.append({"stratum": "data-files", "n": 250 if q else 4000, "k": k, "clean": True})
    specs.append({"stratum": "binary-scalars", "n": 400 if q else 6000, "k": 0, "clean": True, "shrink": False})
    for k in range(2 if q else 8):
        specs.append({"stratum": "subprocess", "n": 16 if q else 64, "k": k, "clean": True, "shard_timeout": 1200, "case_timeout": 60})
    return specs


def one_atom(r, a):
    """Return (b, what) differing from a in exactly one atom, or None."""
    paths = []

    def walk(o, path):
        if isinstance(o, dict):
            for k, v in o.items():
                paths.append((path + [("key", k)], "key"))
                walk(v, path + [("val", k)])
        elif isinstance(o, list):
            if len(o) >= 2:
                paths.append((path, "swap"))
            for i, v in enumerate(o):
                walk(v, path + [("idx", i)])
        else:
            paths.append((path, "scalar"))
    walk(a, [])
    if not paths:
        return None
    path, kind = r.choice(paths)
    b = copy.deepcopy(a)

    def get(o, p):
        for t, k in p:
            o = o[k]
        return o
    if kind == "key":
        parent = get(b, path[:-1])
        k = path[-1][1]
        nk = k + "x" if r.random() < 0.5 or not k else k[:-1]
        if nk in parent:
            return None
        items = [(nk if kk == k else kk, v) for kk, v in parent.items()]
        parent.clear()
        parent.update(items)
        return b, "one-key"
    if kind == "swap":
        lst = get(b, path)
        i, j = r.sample(range(len(lst)), 2)
        if typed_eq(lst[i], lst[j]):
            return None
        lst[i], lst[j] = lst[j], lst[i]
        return b, "one-list-position-swap"
    parent = get(b, path[:-1]) if path else None
    old = get(b, path)
    cands = []
    if isinstance(old, bool):
        cands = [int(old), str(old), not old]
    elif isinstance(old, int):
        cands = [str(old), old + 1, bool(old) if old in (0, 1) else -old or 5]
    elif isinstance(old, float):
        cands = [str(old), old + 1.0]
    elif old is None:
        cands = ["None", "null", "", 0, False]
    elif isinstance(old, str):
        cands = [old + "x", old[:-1] if old else "y", ""]
        if old in ("1", "0", "2", "10"):
            cands.append(int(old))
        if old in ("True", "False"):
            cands.append(old == "True")
        if old in ("None", "null"):
            cands.append(None)
    cands = [c for c in cands if not typed_eq(c, old)]
    if not cands:
        return None
    new = r.choice(cands)
    what = "one-scalar-type" if type(new) is not type(old) else ("one-empty-string" if new == "" or old == "" else "one-character")
    if parent is None:
        return new, what
    parent[path[-1][1]] = new
    return b, what


def gen_cases(spec, ctx):
    r = ctx.rng
    st = spec["stratum"]
    if st == "exhaustive-scalar-table":
        idx = 0
        for x, y in itertools.product(SCALARS, repeat=2):
            for wrap in ("bare", "list", "dict"):
                if idx % spec["of"] == spec["k"]:
                    a, b = {"bare": (x, y), "list": ([x], [y]), "dict": ({"k": x}, {"k": y})}[wrap]
                    yield {"family": "json", "a": a, "b": b, "ds": gen.DS[idx % 3], "le": gen.LE[(idx // 3) % 3],
                           "cli": idx % spec["cli_every"] == 0, "what": "scalar-table"}    # (bare: the whole file is one scalar)
                idx += 1
        return
    if st == "pairs" or st == "subprocess":
        for _ in range(spec["n"]):
            a = gen.gdoc(r, gen.HOSTILE, containers_only=True)
            x = r.random()
            what = "arbitrary"
            if x < 0.2:
                b = gen.permute_keys(r, copy.deepcopy(a))
                what = "equal-permuted"
            elif x < 0.55:
                res = one_atom(r, a)
                if res is None:
                    continue
                b, what = res
            elif x < 0.85:
                b = gen.mutate(r, a, gen.HOSTILE)
                what = "related"
            else:
                b = gen.gdoc(r, gen.HOSTILE, containers_only=True)
            if st == "subprocess":
                yield {"family": "json", "a": a, "b": b, "ds": r.choice(gen.DS), "le": r.choice(gen.LE), "subprocess": True,
                       "what": what}
                continue
            for ds in gen.DS:
                yield {"family": "json", "a": a, "b": b, "ds": ds, "le": r.choice(gen.LE), "cli": True, "what": what}
        return
    if st == "binary-scalars":
        # plist <data> elements (XML and binary plists) and YAML !!binary scalars reach the loaders as bytes; the values below are
        # text, valid non-ASCII UTF-8, and byte strings that are not UTF-8 at all, and the two files differ in one of those parts
        blobs = [b"plain", b"caf\xc3\xa9", b"\xff\x00\x10", b"\xfe\x00\x10", b"head\xff", b"head\xfe", b"\x80", b"\x81", b"", b"a"]
        for _ in range(spec["n"]):
            t = r.choice(["plist", "plist", "yaml"])
            x, y = r.choice(blobs), r.choice(blobs)
            if r.random() < 0.25:
                y = x
            shape = r.choice(["value", "list", "nested"])
            def doc(b_):
                return {"value": {"blob": b_, "n": 7}, "list": [b_, "s"], "nested": {"k": {"inner": [2, b_]}}}[shape]
            yield {"binary": True, "type": t, "x": x.hex(), "y": y.hex(), "shape": shape, "a": 0, "b": 1,
                   "mode": r.choice([[], [], ["-e"], ["-d"], ["-k"]]), "variant": r.randrange(6)}
        return
    if st == "data-files":
        # the same questions asked of documents that reach the engine through the real JSON / JSON5 / YAML / pickle loaders, in
        # the dialects formats.write() produces (YAML multi-document streams, anchors, explicit scalar styles, JSON5 syntax ...)
        for _ in range(spec["n"]):
            c = families.gen_case(r, "file")
            x = r.random()
            c["what"] = "file:related"
            if "va" in c:
                c["what"] = "file:yaml-stream-with-empty-documents"
                if not (isinstance(c["a"], list) and isinstance(c["b"], list)):
                    continue
                c["cli"] = True
                yield c
                continue
            if x < 0.25:
                c["b"] = gen.permute_keys(r, copy.deepcopy(c["a"]))
                c["what"] = "file:equal-permuted"
            elif x < 0.6:
                res = one_atom(r, c["a"])
                if res is None or not isinstance(res[0], (dict, list)) or not res[0]:
                    continue
                c["b"], c["what"] = res[0], "file:" + res[1]
            if not (isinstance(c["a"], (dict, list)) and c["a"] and isinstance(c["b"], (dict, list)) and c["b"]):
                continue
            c["cli"] = True
            yield c
        return
    if st == "xml-csv":
        for _ in range(spec["n"]):
            fam = r.choice(["xml", "csv"])
            c = families.gen_case(r, fam)
            if r.random() < 0.3:
                c["b"] = copy.deepcopy(c["a"])
            c["cli"] = True
            c["what"] = fam
            yield c


def expected_equal(case):
    fam = case["family"]
    a, b = case["a"], case["b"]
    if fam in ("json", "file"):
        if has_int_float_twin(a, b):
            return None
        return typed_eq(a, b)
    if fam == "xml":
        def norm(x):
            t, at, tx, kids = x
            return (t, tuple(sorted(at.items())), (tx or "").strip(), tuple(norm(k) for k in kids))
        return norm(a) == norm(b)
    if fam == "csv":
        # (tables that consist of blank rows only are documents too: different numbers of blank rows are different tables)
        return a == b
    return None


def write_files(case):
    fam = case["family"]
    if fam == "json":
        return (families.tmpfile(json.dumps(case["a"]).encode(), ".json"), families.tmpfile(json.dumps(case["b"]).encode(), ".json"))
    if fam == "file":
        from gv import formats
        return (families.tmpfile(formats.write(case["ta"], case["a"], variant=case.get("va")), formats.EXT[case["ta"]]),
                families.tmpfile(formats.write(case["tb"], case["b"], variant=case.get("vb")), formats.EXT[case["tb"]]))
    if fam == "xml":
        return (families.tmpfile(families.xml_text(case["a"]).encode(), ".xml"), families.tmpfile(families.xml_text(case["b"]).encode(), ".xml"))
    if fam == "csv":
        import csv
        import io
        out = []
        for rows in (case["a"], case["b"]):
            s = io.StringIO()
            csv.writer(s).writerows(rows)
            out.append(families.tmpfile(s.getvalue().encode(), ".csv"))
        return tuple(out)
    raise ValueError(fam)


def cli_args(case):
    args = []
    ds, le = case.get("ds", "auto"), case.get("le", "on")
    if ds != "auto":
        args += ["--dict-strategy", ds]
    if le == "off":
        args += ["--no-list-edits"]
    elif le == "same":
        args += ["--no-list-edits-when-same-length"]
    return args


def check_binary(case, ctx):
    """Only the verdict is judged: documents that differ must never be reported as equal (exit status 0)."""
    import plistlib
    x, y = bytes.fromhex(case["x"]), bytes.fromhex(case["y"])

    def doc(b_):
        return {"value": {"blob": b_, "n": 7}, "list": [b_, "s"], "nested": {"k": {"inner": [2, b_]}}}[case["shape"]]

    def write(b_, tag):
        if case["type"] == "plist":
            data = plistlib.dumps(doc(b_), fmt=plistlib.FMT_BINARY if case["variant"] % 3 == 2 else plistlib.FMT_XML)
            return families.tmpfile(data, tag + ".plist")
        import yaml
        return families.tmpfile(yaml.safe_dump(doc(b_)).encode("utf-8"), tag + ".yaml")
    pa, pb = write(x, "-bin-a"), write(y, "-bin-b")
    res = monitors.run_main(["--no-status"] + case["mode"] + [pa, pb])
    if ctx is not None:
        ctx.count("binary_scalar_comparisons")
        ctx.count("binary:" + ("equal" if x == y else "different"))
        ctx.seen(case, nontrivial=x != y)

    def is_text(b_):
        try:
            b_.decode("utf-8")
            return True
        except UnicodeDecodeError:
            return False
    if x != y:
        if res.exc is None and res.rc == 0:
            return [{"kind": "different-binary-values-reported-as-equal", "x": case["x"], "y": case["y"], "type": case["type"],
                     "stdout": res.out[:200]}]
    elif is_text(x) and res.exc is None and res.rc != 0:
        return [{"kind": "cli-exit-status", "equal": True, "rc": res.rc, "stderr": res.err[-200:]}]
    return []


def check(case, ctx):
    if case.get("binary"):
        try:
            return check_binary(case, ctx)
        except Exception as ex:  # noqa
            return [core.exc_diag("harness-exception", ex)]
    eq = expected_equal(case)
    if eq is None:
        if ctx is not None:
            ctx.count("undetermined_not_judged")
        return []
    diags = []
    monitors.TRAP.reset()
    want_rc = 0 if eq else 1
    try:
        if case.get("subprocess"):
            pa, pb = write_files(case)
            env = dict(os.environ)
            env["PYTHONPATH"] = os.environ.get("VP_REPO", "/repo")
            p = subprocess.run([sys.executable, "-m", "graphtage", "--no-status", pa, pb] + cli_args(case),
                               capture_output=True, timeout=50, env=env, cwd=families.tmpdir())
            if ctx is not None:
                ctx.count("subprocess_runs")
            if p.returncode != want_rc:
                diags.append({"kind": "subprocess-exit-status", "equal": eq, "rc": p.returncode,
                              "stderr": p.stderr.decode("utf8", "replace")[-300:]})
            # the same argv through the in-process route must agree (faithfulness of the in-process observer)
            r2 = monitors.run_main(["--no-status", pa, pb] + cli_args(case))
            if r2.exc is None and (r2.rc != p.returncode or r2.out != p.stdout.decode("utf8", "replace")):
                diags.append({"kind": "inprocess-observer-differs-from-subprocess", "rc_inproc": r2.rc, "rc_sub": p.returncode})
        else:
            ta, tb = families.build(case)
            d = ta.diff(tb)
            cost = d.edited_cost()
            had = any(any(e.has_non_zero_cost() for e in n.edit_list) for n in d.dfs())
            if (cost == 0) != eq:
                diags.append({"kind": "zero-cost-for-unequal" if cost == 0 else "positive-cost-for-equal", "equal": eq, "cost": cost,
                              **_culprit(d, eq)})
            if had == eq:
                diags.append({"kind": "no-nonzero-edit-for-unequal" if not had else "nonzero-edit-for-equal", "equal": eq})
            if (ta == tb) != eq and case["family"] == "json":
                diags.append({"kind": "tree-equality-disagrees", "equal": eq, "tree_eq": ta == tb})
            if case.get("cli"):
                pa, pb = write_files(case)
                status_on = core.case_hash(case) % 3 == 0       # default user path: status on, real file descriptors
                tty = core.case_hash(case) % 6 == 3             # ... or a terminal: colour is then on without being asked for
                res = monitors.run_main((["--color"] if not tty else []) + ([] if status_on else ["--no-status"]) + [pa, pb]
                                        + cli_args(case), real_files=status_on, tty=tty)
                if ctx is not None:
                    ctx.count("cli_inprocess")
                    if status_on:
                        ctx.count("cli_on_a_terminal" if tty else "cli_with_status_output_and_real_fds")
                # the edit-list modes compute the exit status on a different path (get_all_edits)
                h = core.case_hash(case) % 4
                if h < 2:
                    mode = ["-e"] if h == 0 else ["-d"]
                    r2 = monitors.run_main(mode + ["--no-status", pa, pb] + cli_args(case))
                    if ctx is not None:
                        ctx.count("cli_inprocess_mode" + mode[0])
                    if r2.exc is not None:
                        if not isinstance(r2.exc, ValueError):      # (re-parenting errors of formatter fallbacks are C13's)
                            diags.append(core.exc_diag("cli-raised", r2.exc, mode=mode[0]))
                    else:
                        if r2.rc != want_rc:
                            diags.append({"kind": "cli-exit-status", "equal": eq, "rc": r2.rc, "mode": mode[0]})
                        if bool(r2.out.strip()) == eq:
                            diags.append({"kind": "edit-list-empty-for-unequal" if eq is False else "edit-list-nonempty-for-equal",
                                          "mode": mode[0], "equal": eq, "stdout": r2.out[:200]})
                if res.exc is not None:
                    diags.append(core.exc_diag("cli-raised", res.exc))
                else:
                    if res.rc != want_rc:
                        diags.append({"kind": "cli-exit-status", "equal": eq, "rc": res.rc})
                    marks = monitors.has_change_marks(res.out)
                    if marks == eq:
                        diags.append({"kind": "no-change-marks-for-unequal" if not marks else "change-marks-for-equal",
                                      "equal": eq})
    except core.Budget as ex:
        diags.append({"kind": "step-budget", "msg": str(ex)[:200]})
    except Exception as ex:  # noqa
        diags.append(core.exc_diag("exception", ex))
    if ctx is not None:
        ctx.count("equal_pairs" if eq else "unequal_pairs")
        what = case.get("what", "")
        if what.startswith("one-"):
            ctx.count("one_atom_pairs")
        ctx.count("what:" + what)
        ctx.seen(case, nontrivial=(what.startswith("one-") or what in ("related", "equal-permuted", "scalar-table", "xml", "csv")))
    return diags


def _culprit(d, eq):
    """For the classifier: the zero-cost leaf pairing that hides the difference."""
    from graphtage import edits as ge
    import graphtage
    from gv.oracle import val
    if eq:
        return {}
    try:
        for top in (getattr(d, "edit_list", None) or []):
            for x in monitors.walk_script(top):
                if isinstance(x, ge.Match) and isinstance(x.from_node, graphtage.LeafNode) and isinstance(x.to_node, graphtage.LeafNode):
                    if val(x.from_node) != val(x.to_node) and x.bounds().upper_bound == 0:
                        return {"pair": [repr(x.from_node.object), repr(x.to_node.object)],
                                "same_str": str(x.from_node.object) == str(x.to_node.object),
                                "py_equal": x.from_node.object == x.to_node.object}
    except Exception:
        pass
    return {}


def classify(case, diag):
    return None


def shrink_candidates(case):
    if case.get("subprocess"):
        return
    yield from families.shrink_case(case)


def coverage_extra(counters, tier):
    return {"exhaustive": True,
            "exhaustive_subspaces": f"all {len(SCALARS)}^2 ordered scalar pairs, each bare, inside a list and inside a dict value"}


LEVEL_TEXT = ("Runtime monitoring with a type-strict equality oracle on the generated data: for every pair and option combination the "
              "library cost, the CLI's own had-edits rule, main()'s return value on files written by json.dumps / ElementTree / "
              "csv.writer, the presence of change marks in the colour rendering and (sampled) the exit status of real "
              "`python -m graphtage` processes must say 'no edits' exactly when the documents are equal. The scalar x scalar table "
              "over 60 hostile scalars is enumerated completely.")
LEVEL_NOTE = ("Trusted: typed_eq (gv/oracle.py) and the independent serialisers. int/float twins and NaN are not judged. Subprocess "
              "observations are a sample (CLI start-up is ~1.3 s); the in-process route is cross-checked against them.")
TECHNIQUE = "runtime monitor: equality oracle on generated data vs cost / exit status / change marks (library, in-process CLI, subprocess)"
