"""C07 — Diffing is a pure, deterministic function of its inputs.

Monitors: (a) across processes — one driver process per PYTHONHASHSEED runs the same batch of CLI
invocations in-process (with a seeded amount of garbage kept alive so id()-based tie-breaks see
different address orders) and records a digest of stdout + exit status per case; the orchestrator
compares the digests across seeds; a sample goes through real `python -m graphtage` processes.
(b) within a process — every case is run three times; a dedicated sub-check renders hundreds of
colour diffs in one interpreter with the real colorama.init.  (c) purity — a structural snapshot of
both input trees is taken before and after diff(), get_all_edits() and rendering."""
import collections
import copy
import hashlib
import json
import os
import random
import subprocess
import sys

from gv import core, families, gen, monitors

ID = "C07"
LEVEL = "exploration"
RULE = ("CLI invocations (JSON pairs biased to mappings with many unmatched keys and matching ties, all 9 build-option "
        "combinations, output modes default/-e/-d/-j/--color/--format yaml|json5) executed under PYTHONHASHSEED in {0,1,2,3,...} "
        "with perturbed allocation order, 3 repetitions each, plus real subprocesses and an in-process colour-printer endurance "
        "run; purity snapshots on every library-level case; non-trivial = the two documents differ; distinct = distinct argv+documents")
ASSUMPTIONS = ["stderr is not compared (progress bars carry timings)",
               "snapshot = per node: class, scalar / child identity list, parent identity, option flags, quoted flag"]
MINIMUMS = {"quick": {"comparisons_with_a_diff_result_as_input": 800, "cross_seed_comparisons": 400, "within_process_repeats": 1500, "purity_snapshots": 800,
                      "subprocess_comparisons": 8, "colour_printers_in_one_process": 500},
            "thorough": {"comparisons_with_a_diff_result_as_input": 12000, "cross_seed_comparisons": 10000, "within_process_repeats": 20000, "purity_snapshots": 12000,
                         "subprocess_comparisons": 100, "colour_printers_in_one_process": 3000}}

MODES = [[], ["-e"], ["-d"], ["-j"], ["--color"], ["--format", "yaml"], ["--format", "json5"], ["-jl"], ["--html"]]


def plan(tier, seed):
    q = tier == "quick"
    specs = []
    seeds = [0, 1, 2, 3] if q else [0, 1, 2, 3, 4, 5, 6, 7]
    batches, per = (3, 60) if q else (8, 450)
    for b in range(batches):
        for h in seeds:
            specs.append({"stratum": "cross-seed", "batch": b, "n": per, "hashseed": h, "clean": True, "shrink": False})
    for k in range(2 if q else 8):
        specs.append({"stratum": "purity", "n": 500 if q else 3000, "k": k, "clean": True})
    specs.append({"stratum": "colour-endurance", "n": 600 if q else 3000, "real_colorama": True, "clean": True, "shrink": False,
                  "recursionlimit": 1000})
    for k in range(2 if q else 8):
        specs.append({"stratum": "subprocess", "n": 4 if q else 13, "k": k, "clean": True, "shrink": False,
                      "case_timeout": 120, "shard_timeout": 2400})
    return specs


def cli_pair(r):
    """Mappings with many unmatched keys (removal order visible), ties, nesting."""
    prof = gen.CLEAN
    n = r.randint(2, 7)
    a = {}
    for _ in range(n):
        a[(gen.gstr(r, prof) or "k") + r.choice("xyz")] = gen.gdoc(r, prof, 2, 3, 3)
    b = {}
    for k, v in a.items():
        x = r.random()
        if x < 0.35:
            continue                       # unmatched on the first side
        if x < 0.6:
            b[k] = copy.deepcopy(v)
        elif x < 0.8:
            b[k] = gen.mutate(r, v, prof)
        else:
            b[k + r.choice("abc")] = copy.deepcopy(v)
    for _ in range(r.randint(0, 4)):
        b[(gen.gstr(r, prof) or "n") + r.choice("uvw")] = gen.gdoc(r, prof, 2, 3, 3)
    if r.random() < 0.3:
        a, b = [a, [1, 2]], [b, [2, 3]]
    if r.random() < 0.2:
        a, b = {"outer": a, "o2": copy.deepcopy(a)}, {"outer": b, "o3": copy.deepcopy(a)}
    return a, b


def gen_cases(spec, ctx):
    st = spec["stratum"]
    if st in ("cross-seed", "subprocess"):
        # identical case list for every hash seed of the same batch
        key = spec.get("batch", spec.get("k"))
        r = random.Random(f"C07/{spec.get('seed', 0)}/{st}/{key}")
        from gv import formats
        cases = []
        for i in range(spec["n"]):
            t = "json"
            if r.random() < 0.4:
                t = r.choice(formats.TYPES)
                a, b = formats.gen_pair_for_type(r, t)
            else:
                a, b = cli_pair(r)
            ds, le = r.choice(gen.DS), r.choice(gen.LE)
            if r.random() < 0.4:
                ds = "none"
            mode = r.choice(MODES)
            tb = t
            if t != "json" and t in formats.DATA_TYPES and r.random() < 0.5:
                tb = r.choice(formats.DATA_TYPES)     # the second file in another data format
            if i % 12 in (5, 11):
                # cross-format pairs listed as raw edits: the place where a node without its own repr would leak an address
                a, b = formats.gen_pair_for_type(r, "yaml")
                t, tb = (r.choice(["json", "json5", "yaml", "pickle"]), "plist") if i % 12 == 5 else \
                    ("plist", r.choice(["json", "yaml", "pickle"]))
                mode = r.choice([["-e"], ["-d"], []])
            if i % 12 in (2, 8):
                # number twins (1, 1.0, true) against the same target: python-equal objects with different renderings and
                # costs -- a process-wide cache keyed by equality would mix them up
                x = [1, 1.0, True, 0, 0.0, False, 2, 2.0][(i // 12 + (i % 12 == 8)) % 8]
                a = {"a": x, "b": 2, "c": [x, 5]}
                b = {"c": [5], "d": 5}
                t = tb = "json"
                mode = []
            if i % 12 in (3, 9):
                # edited strings with features a string formatter branches on (embedded newlines -> YAML block scalars, quotes,
                # long lines), next to edited plain ones, in every output format: a formatter that remembers something about the
                # previous string it printed makes the rendering depend on what was printed before
                feats = ["l1\nl2", "l1\nl2\n", "a\n\nb", "plain", "x", 'q"r', "it's", "w " * 30, "k: v", "- x", "#c", " pad "]
                keys = r.sample(["s", "t", "u", "v", "w"], r.randint(2, 4))
                a = {k: r.choice(feats) for k in keys}
                b = {k: (v + r.choice(["!", "\nmore", "z"]) if r.random() < 0.8 else v) for k, v in a.items()}
                if r.random() < 0.5:
                    a, b = [a, "x"], [b, "y"]
                t = tb = r.choice(["json", "yaml"])
                mode = r.choice([["--format", "yaml"], ["--format", "yaml"], [], ["--format", "json5"], ["--format", "plist"],
                                 ["--format", "xml"], ["--format", "csv"], ["--format", "yaml", "-j"]])
            if i % 12 in (4, 10):
                # matching rules (--match-if / --match-unless) over tables and lists of rows: the rule is evaluated for every
                # candidate pair of nodes; a decision that leans on anything but the two nodes at hand (an identity-keyed memo
                # surviving from an earlier comparison, say) changes which rows get paired
                rows = [[r.choice(["a", "b", "c", "ab"]), r.choice([2, 3, 10]), r.choice(["x", "y"])][:r.randint(2, 3)]
                        for _ in range(r.randint(2, 5))]
                rows2 = [list(x) for x in rows]
                r.shuffle(rows2)
                for row in rows2:
                    if r.random() < 0.5:
                        row[r.randrange(len(row))] = r.choice(["a", "b", "zz", 2, 7])
                if r.random() < 0.4:
                    rows2.append(["new", 2])
                a, b = rows, rows2
                t = tb = r.choice(["json", "yaml", "csv"])
                if t == "csv":
                    a, b = [[str(c) for c in row] for row in a], [[str(c) for c in row] for row in b]
                rule = r.choice(["from[0] != to[0]", "len(from) != len(to)", "from[1] == to[1]", "from == to", "to[0] == 'a'",
                                 "from[0] in ('a', 'b') and to[0] == 'c'"])
                mode = [r.choice(["-u", "-m", "--match-unless", "--match-if"]), rule]
            cases.append({"a": a, "b": b, "ds": ds, "le": le, "mode": mode, "idx": i, "kind": st, "type": t, "type_b": tb})
        # the schedule dimension: every other hash seed runs the same batch in reverse order, so that a result which
        # depends on what the process did before shows up as a cross-process digest mismatch
        if st == "cross-seed":
            # change marks that nest (a removed region containing an inserted one, and vice versa): the order in which
            # several active combining marks are written must not depend on string hashing
            for j, nest in enumerate((["strike", "under_plus"], ["under_plus", "strike"], ["strike", "under_plus", "strike"])):
                cases.append({"kind": "printer-nested-marks", "nest": nest, "idx": spec["n"] + j, "a": 0, "b": 1})
        if st == "cross-seed" and int(spec.get("hashseed", 0)) % 2 == 1:
            cases.reverse()
        yield from cases
        return
    r = ctx.rng
    if st == "purity":
        for _ in range(spec["n"]):
            fam = r.choice(["json", "json", "json", "xml", "csv", "plist", "basic"])
            c = families.gen_case(r, fam)
            c["kind"] = "purity"
            yield c
        return
    if st == "colour-endurance":
        yield {"kind": "colour-endurance", "n": spec["n"]}


def argv_for(case, pa, pb):
    from gv.props.c02 import cli_args
    args = ["--no-status"] + list(case["mode"]) + cli_args(case)
    if case["ds"] == "none" and case["idx"] % 2 == 0:
        args = ["--no-status"] + list(case["mode"]) + ["-k"] + [x for x in cli_args({"ds": "auto", "le": case["le"]})]
    return args + [pa, pb]


def snapshot(tree):
    snap = []
    for n in tree.dfs():
        ch = n.children()
        snap.append((type(n).__name__, id(n), tuple(id(c) for c in ch) if ch else None,
                     repr(getattr(n, "object", None)) if not ch else None,
                     id(n.parent) if n.parent is not None else None,
                     getattr(n, "allow_list_edits", None), getattr(n, "allow_list_edits_when_same_length", None),
                     getattr(n, "auto_match_keys", None), getattr(n, "allow_key_edits", None), getattr(n, "quoted", None),
                     getattr(n, "edited", None), n.__dict__.get("_edit_modifiers") is not None))
    return snap


_garbage = []


def _has_none(o):
    from gv.formats import _has_none as h
    return h(o)


def check(case, ctx):
    kind = case["kind"]
    diags = []
    monitors.TRAP.reset()
    try:
        if kind == "printer-nested-marks":
            import io
            import graphtage.printer as gp
            out = io.StringIO()
            p = gp.Printer(out_stream=out, ansi_color=True, quiet=True)

            def rec(i):
                if i == len(case["nest"]):
                    p.write("xy")
                    return
                with getattr(p, case["nest"][i])():
                    p.write("a")
                    rec(i + 1)
                    p.write("b")
            with p:
                rec(0)
            text = out.getvalue()
            if ctx is not None:
                dig = hashlib.sha1(text.encode("utf8", "surrogatepass")).hexdigest()
                ctx.extra.setdefault("digests", []).append([case["idx"], dig, ["printer-nested-marks"] + case["nest"], repr(text)[:600]])
                ctx.seen(case, True)
            return diags
        if kind in ("cross-seed", "subprocess"):
            from gv import formats
            t = case.get("type", "json")
            # file names appear in the output (HTML title, error messages): they must not depend on the schedule
            pa = families.tmpfile(formats.write(t, case["a"]), formats.EXT[t], name=f"case{case['idx']}-first")
            tb = case.get("type_b", t)
            b_doc = case["b"]
            if tb in ("plist", "pickle", "yaml") and tb != t and not isinstance(b_doc, (dict, list)):
                b_doc = [b_doc]
            if tb == "plist" and _has_none(b_doc):
                tb = t
            pb = families.tmpfile(formats.write(tb, b_doc), formats.EXT[tb], name=f"case{case['idx']}-second")
            args = argv_for(case, pa, pb)
            if kind == "cross-seed":
                # perturb allocation order: a hash-seed dependent amount of garbage stays alive
                hs = int(os.environ.get("PYTHONHASHSEED", "0") or 0)
                _garbage.append([object() for _ in range((hs * 7919 + case["idx"] * 31) % 997)])
                if len(_garbage) > 50:
                    del _garbage[:25]
                outs = []
                for rep in range(3):
                    res = monitors.run_main(args)
                    if res.exc is not None:
                        outs.append(("exc", type(res.exc).__name__))
                    else:
                        outs.append((res.rc, res.out))
                if ctx is not None:
                    ctx.count("within_process_repeats", 3)
                if len(set(map(repr, outs))) != 1:
                    diags.append({"kind": "repeated-call-differs-within-one-process", "argv": args[:-2],
                                  "outs": [repr(o)[:200] for o in outs]})
                dig = hashlib.sha1(repr(outs[0]).encode("utf8", "surrogatepass")).hexdigest()
                if ctx is not None:
                    ctx.extra.setdefault("digests", []).append([case["idx"], dig, args[:-2], repr(outs[0])[:600]])
                    ctx.seen(case, nontrivial=case["a"] != case["b"])
            else:
                env = dict(os.environ)
                env["PYTHONPATH"] = os.environ.get("VP_REPO", "/repo")
                results = []
                for hs in ("0", "1", "77"):
                    env["PYTHONHASHSEED"] = hs
                    p = subprocess.run([sys.executable, "-m", "graphtage"] + args, capture_output=True, timeout=100, env=env,
                                       cwd=families.tmpdir())
                    results.append((p.returncode, p.stdout))
                if ctx is not None:
                    ctx.count("subprocess_comparisons")
                if len(set(results)) != 1:
                    diags.append({"kind": "subprocess-output-depends-on-hash-seed", "argv": args[:-2],
                                  "rcs": [r[0] for r in results], "outs": [r[1][:300].decode("utf8", "replace") for r in results]})
                res = monitors.run_main(args)
                # (with --color/--html the real process' colorama strips SGR codes on a pipe; not comparable byte for byte)
                if res.exc is None and "--color" not in args and "--html" not in args and \
                        (res.rc, res.out.encode("utf8", "replace")) != results[0]:
                    diags.append({"kind": "inprocess-observer-differs-from-subprocess", "argv": args[:-2]})
                if ctx is not None:
                    ctx.seen(case, nontrivial=case["a"] != case["b"])
        elif kind == "purity":
            ta, tb = families.build(case)
            sa, sb = snapshot(ta), snapshot(tb)
            d = ta.diff(tb)
            d.edited_cost()
            if snapshot(ta) != sa or snapshot(tb) != sb:
                diags.append({"kind": "diff-altered-an-input-tree"})
            for _ in ta.get_all_edits(tb):
                pass
            if snapshot(ta) != sa or snapshot(tb) != sb:
                diags.append({"kind": "get_all_edits-altered-an-input-tree"})
            import io
            import graphtage.printer as gp
            from gv.props.c05 import _formatter
            p = gp.Printer(out_stream=io.StringIO(), ansi_color=False, quiet=True)
            try:
                _formatter(case["family"]).print(p, d)
            except Exception:
                if ctx is not None:
                    ctx.count("render_raised_left_to_C13")
            if snapshot(ta) != sa or snapshot(tb) != sb:
                diags.append({"kind": "rendering-altered-an-input-tree"})
            # history: the result of a comparison (an annotated copy of the first tree) is itself handed to another comparison.
            # It is an input like any other: the outcome must be what the plain first tree gives against the same document, and
            # the result tree must come out of it unaltered (its own annotations included)
            try:
                fresh_a, fresh_b = families.build(case)
                an = annotations(d)
                for which, third in (("second", fresh_b), ("first-again", fresh_a)):
                    d2 = d.diff(third)
                    ref = ta.diff(third)
                    o2, oref = _render_or_cost(case["family"], d2), _render_or_cost(case["family"], ref)
                    if ctx is not None:
                        ctx.count("comparisons_with_a_diff_result_as_input")
                    if o2 != oref:
                        diags.append({"kind": "diff-result-as-input-gives-another-outcome", "against": which,
                                      "from_result": repr(o2)[:300], "from_plain_tree": repr(oref)[:300]})
                        break
                    if annotations(d) != an:
                        diags.append({"kind": "comparison-altered-the-diff-result-it-was-given", "against": which})
                        break
            except core.Budget:
                raise
            except Exception as ex:  # noqa
                diags.append(core.exc_diag("diff-result-as-input-raised", ex))
            if ctx is not None:
                ctx.count("purity_snapshots")
                ctx.count("purity_nodes", len(sa) + len(sb))
                ctx.seen(case, nontrivial=True)
        elif kind == "colour-endurance":
            import graphtage.printer as gp
            if getattr(gp.colorama.init, "__name__", "") == "<lambda>":
                diags.append({"kind": "harness-error", "msg": "colorama.init was neutralised in the endurance shard"})
            r = random.Random(5)
            first = None
            for i in range(case["n"]):
                a, b = {"k": [1, 2, i % 3], "z": "abc"}, {"k": [2, 3], "y": "abd"}
                # library route, as an embedding program would do it: sys.stdout is left alone between calls
                import io
                import graphtage.json as gj
                res_exc, text = None, None
                try:
                    ta, tb = gj.build_tree(a), gj.build_tree(b)
                    out = io.StringIO()
                    p = gp.Printer(out_stream=out, ansi_color=True, quiet=True)
                    with p:
                        gj.JSONFormatter.DEFAULT_INSTANCE.print(p, ta.diff(tb))
                    text = out.getvalue()
                    sys.stdout.write(" ")
                except Exception as ex:  # noqa
                    res_exc = ex
                if ctx is not None:
                    ctx.count("colour_printers_in_one_process")
                if res_exc is not None:
                    diags.append(core.exc_diag("repeated-colour-call-raised", res_exc, call_number=i + 1))
                    break
                cur = text if i % 3 == 0 else None
                if i % 3 == 0:
                    if first is None:
                        first = cur
                    elif cur != first:
                        diags.append({"kind": "repeated-call-differs-within-one-process", "call_number": i + 1})
                        break
            if ctx is not None:
                ctx.seen(case, True)
    except core.Budget as ex:
        diags.append({"kind": "step-budget", "msg": str(ex)[:200]})
    except Exception as ex:  # noqa
        diags.append(core.exc_diag("exception", ex))
    return diags


def annotations(d):
    """Edit annotations of a diff result, per node in dfs order (identity-free)."""
    out = []
    for n in d.dfs():
        out.append((type(n).__name__, bool(getattr(n, "removed", False)), len(getattr(n, "inserted", ()) or ()),
                    getattr(n, "matched_to", None) is not None, len(getattr(n, "edit_list", ()) or ()),
                    type(getattr(n, "edit", None)).__name__))
    try:
        out.append(("cost", d.edited_cost()))
    except Exception as ex:  # noqa
        out.append(("cost-raised", type(ex).__name__))
    return out


def _render_or_cost(family, d):
    import io
    import graphtage.printer as gp
    from gv.props.c05 import _formatter
    cost = d.edited_cost()
    status = any(any(e.has_non_zero_cost() for e in n.edit_list) for n in d.dfs())
    try:
        out = io.StringIO()
        p = gp.Printer(out_stream=out, ansi_color=False, quiet=True)
        with p:
            _formatter(family).print(p, d)
        return (cost, status, out.getvalue())
    except Exception as ex:  # noqa   (rendering errors are C13's)
        return (cost, status, "render raised " + type(ex).__name__)


def finalize(results):
    """Cross-process verdict: same batch, different hash seeds -> identical digests."""
    by_batch = collections.defaultdict(dict)
    for r in results:
        sp = r["spec"]
        if sp.get("stratum") == "cross-seed":
            by_batch[sp["batch"]][sp["hashseed"]] = {d[0]: d for d in r.get("extra", {}).get("digests", [])}
    failures, counts = [], collections.Counter()
    for b, per_seed in by_batch.items():
        seeds = sorted(per_seed)
        if not seeds:
            continue
        ref = per_seed[seeds[0]]
        for hs in seeds[1:]:
            for idx, d in per_seed[hs].items():
                if idx not in ref:
                    continue
                counts["cross_seed_comparisons"] += 1
                if d[1] != ref[idx][1]:
                    failures.append({"case": {"batch": b, "idx": idx, "argv": d[2], "kind": "cross-seed-replay"},
                                     "diag": {"kind": "output-depends-on-hash-seed", "argv": d[2], "hashseeds": [seeds[0], hs],
                                              "out_a": ref[idx][3], "out_b": d[3]},
                                     "finding": classify_cross(d[2]), "stratum": "cross-seed", "clean": False, "shard": -1})
    return failures, counts


def classify_cross(argv):
    return None


def classify(case, diag):
    return None


LEVEL_TEXT = ("Runtime monitoring of determinism and purity on real executions: identical batches of CLI invocations are run in "
              "separate interpreter processes under different string-hash seeds and allocation orders and their stdout/exit-status "
              "digests compared; each invocation is repeated three times in one process; real subprocesses are sampled; hundreds "
              "of colour printers are created in one process with the real colorama; input trees are snapshotted around diff(), "
              "get_all_edits() and rendering.")
LEVEL_NOTE = ("Trusted: sha1 digests, the snapshot function. Hash seeds explored: 4 (quick) / 8 (thorough) plus 3 in real subprocesses; "
              "other sources of nondeterminism (time, environment) are not driven.")
TECHNIQUE = "runtime monitor: cross-process digest comparison under different PYTHONHASHSEED + repeat-in-process + tree snapshots"
