"""C12 — Printing an unedited document yields text that parses back equal.

Monitor: file (independent writer) -> real loader -> real formatter on Printer(ansi_color=False) ->
text -> same real loader; the two loaded trees must be the same document (value equality through the
public node API, XML text compared stripped, and zero-cost diff both ways)."""
import io
import json

from gv import core, families, formats, gen, monitors
from gv.oracle import val

ID = "C12"
LEVEL = "exploration"
RULE = ("documents per format: JSON / JSON5 / CSV over the whole value domain (every Unicode scalar class, escapes, quotes, "
        "separators, embedded newlines, empty containers, deep nesting, extreme numbers), YAML / plist / XML over plain "
        "alphanumeric scalars with unrestricted structure; routes: library formatter, in-process CLI with --no-status into memory, "
        "and in-process CLI as a default command line runs (status output on, real file descriptors), file diffed against itself; non-trivial = document has >= 3 nodes; distinct = distinct (format, document, route)")
ASSUMPTIONS = ["NaN is never generated; inputs that the reference writer and the loader already disagree on before printing are dropped and counted",
               "'same document' = equal values through children()/.object/.key/.value (XML text stripped) and zero-cost diff both ways"]
MINIMUMS = {"quick": {"route:cli-default": 800, "roundtrips:json": 1000, "roundtrips:json5": 60, "roundtrips:csv": 1000, "roundtrips:yaml": 800,
                      "roundtrips:plist": 800, "roundtrips:xml": 800},
            "thorough": {"route:cli-default": 20000, "roundtrips:json": 30000, "roundtrips:json5": 3000, "roundtrips:csv": 30000, "roundtrips:yaml": 25000,
                         "roundtrips:plist": 25000, "roundtrips:xml": 25000}}
FORMATS = ["json", "json5", "csv", "yaml", "plist", "xml"]


def plan(tier, seed):
    q = tier == "quick"
    specs = []
    for f in FORMATS:
        n = {"json5": 100 if q else 1500}.get(f, 700 if q else 10000)
        for k in range(2 if q else 4):
            specs.append({"stratum": f"{f}-clean", "format": f, "n": n, "k": k, "clean": True})
        if f == "yaml":
            specs.append({"stratum": f"{f}-with-empty-containers", "format": f, "n": n, "k": 9, "clean": True})
    if not q:
        for k in range(8):
            specs.append({"stratum": "json-all-bmp-codepoints", "format": "json", "sweep": True, "k": k, "of": 8, "clean": True,
                          "shrink": False})
    return specs


WHOLE = gen.Profile("whole", strings="hostile", maxd=4, width=5)
ALNUM = gen.Profile("alnum", strings="alpha", alpha="abcxyzABC019e", numeric_strings=False, bool_with_01=True, none=False, big_ints=False,
                    empty_strings=False)


def unicode_string(r):
    pools = [(0x20, 0x7e), (0x00, 0x1f), (0x7f, 0xa0), (0xa0, 0x2ff), (0x300, 0x36f), (0x370, 0x1fff), (0x2000, 0x206f),
             (0x2028, 0x2029), (0x3000, 0x9fff), (0xe000, 0xf8ff), (0xfff0, 0xffff), (0x10000, 0x1ffff), (0xf0000, 0x10ffff)]
    out = []
    for _ in range(r.randint(1, 6)):
        lo, hi = r.choice(pools)
        c = r.randint(lo, hi)
        if 0xd800 <= c <= 0xdfff:
            c = 0x41
        out.append(chr(c))
    return "".join(out)


def json_doc(r, depth=0):
    x = r.random()
    if depth >= 4 or x < 0.4:
        y = r.random()
        if y < 0.3:
            return unicode_string(r)
        if y < 0.5:
            return gen.gstr(r, WHOLE)
        if y < 0.7:
            return r.choice([0, -0, 1, -1, 2**31, 2**53, 2**63, 2**64, -2**63, 10**30, 10**100])
        if y < 0.85:
            return r.choice([1.0, 0.0, -0.0, 2.0, 0.5, -0.5, 1e308, -1e308, 5e-324, 2.2250738585072014e-308, 1.7976931348623157e308, 0.1, 1e21, 1e-7,
                             123456789.12345679])
        return r.choice([True, False, None])
    if x < 0.7:
        return [json_doc(r, depth + 1) for _ in range(r.choice([0, 1, 2, 4]))]
    d = {}
    for _ in range(r.choice([0, 1, 2, 4])):
        d[unicode_string(r) if r.random() < 0.5 else gen.gstr(r, WHOLE)] = json_doc(r, depth + 1)
    return d


def deep(r, n):
    o = r.choice([1, "x", [], {}])
    for i in range(n):
        o = [o] if i % 2 else {"k": o}
    return o


def alnum_doc(r, depth=0, root=True, allow_empty=True):
    x = r.random()
    if root:
        x = 0.5 + x / 2
    if depth >= 3 or x < 0.5:
        y = r.random()
        if y < 0.5:
            return gen.gstr(r, ALNUM)
        if y < 0.75:
            return r.choice([0, 1, 2, 7, 10, 123, -5, 2**40])
        if y < 0.9:
            return r.choice([1.5, 2.25, -0.5, 12.5])
        return r.choice([True, False])
    lo = 0 if allow_empty else 1
    if x < 0.75:
        return [alnum_doc(r, depth + 1, False, allow_empty) for _ in range(r.randint(lo, 4))]
    d = {}
    for _ in range(r.randint(lo, 4)):
        d[gen.gstr(r, ALNUM)] = alnum_doc(r, depth + 1, False, allow_empty)
    return d


def _has_empty_container(o):
    if isinstance(o, (list, dict)):
        if not o:
            return True
        return any(_has_empty_container(v) for v in (o.values() if isinstance(o, dict) else o))
    return False


def _nested_list(o, parent_is_list=False):
    if isinstance(o, list):
        if parent_is_list:
            return True
        return any(_nested_list(v, True) for v in o)
    if isinstance(o, dict):
        return any(_nested_list(v, False) for v in o.values())
    return False


def _has_astral(o):
    if isinstance(o, str):
        return any(ord(c) > 0xffff for c in o)
    if isinstance(o, dict):
        return any(_has_astral(k) or _has_astral(v) for k, v in o.items())
    if isinstance(o, list):
        return any(_has_astral(v) for v in o)
    return False


def gen_cases(spec, ctx):
    r = ctx.rng
    f = spec["format"]
    clean = spec.get("clean", False)
    if spec.get("sweep"):
        cps = [c for c in range(0x0, 0x10000) if not (0xd800 <= c <= 0xdfff)]
        chunk = 64
        idx = 0
        for i in range(0, len(cps), chunk):
            if idx % spec["of"] == spec["k"]:
                s = "".join(chr(c) for c in cps[i:i + chunk])
                yield {"format": "json", "doc": {"v": s, s[:8]: 1, "l": [chr(c) for c in cps[i:i + 4]]}, "route": "library"}
            idx += 1
        return
    for i in range(spec["n"]):
        # routes: the library formatter; main() with --no-status into an in-memory stream; main() the way a default command line
        # runs it (status output on, stdout/stderr with real file descriptors => StatusWriter's buffered line-splitting path)
        route = "cli" if i % 5 == 0 else ("cli-default" if i % 5 == 1 else "library")
        if f in ("json", "json5"):
            doc = json_doc(r) if r.random() < 0.93 else deep(r, r.choice([6, 10, 14]))
        elif f == "csv":
            def cell():
                return r.choice(["", "a", "ab", "1", "x y", "a,b", 'q"q', '""', "l1\nl2", " a ", "é", "\t", ";", "'", "a\rb", "\\", "#"]) \
                    if r.random() < 0.7 else unicode_string(r)
            doc = [[cell() for _ in range(r.randint(0, 4))] for _ in range(r.randint(0, 5))]
            if not any(doc):
                doc.append(["a"])
        elif f in ("yaml", "plist"):
            doc = alnum_doc(r, allow_empty=not (clean and f == "yaml"))
            if f == "yaml" and clean and (_has_empty_container(doc)):
                continue
        elif f == "xml":
            doc = _plain_xml(families.gen_xml(r))
        yield {"format": f, "doc": doc, "route": route}


def _plain_xml(x):
    """The property's XML domain is plain alphanumeric content."""
    t, at, tx, kids = x
    fix = lambda s: s if s is None or s.isalnum() or s == "" else "abc"   # noqa
    return [t, {k: fix(v) for k, v in at.items()}, fix(tx), [_plain_xml(k) for k in kids]]


def render(ftype, tree, path, route):
    import graphtage.printer as gp
    if route in ("cli", "cli-default"):
        if route == "cli":
            res = monitors.run_main(["--no-status", "--no-color", path, path])
        else:
            res = monitors.run_main([path, path], real_files=True)
        if res.exc is not None:
            raise res.exc
        if res.rc != 0:
            raise AssertionError(f"a file diffed against itself exits with status {res.rc}")
        text = res.out
        # main() terminates the rendering with one extra newline
        return text[:-1] if text.endswith("\n") else text
    out = io.StringIO()
    p = gp.Printer(out_stream=out, ansi_color=False, quiet=True)
    with p:
        ftype.get_default_formatter().print(p, tree)
    return out.getvalue()


def _norm(v):
    """XML: text compared modulo surrounding whitespace."""
    if isinstance(v, tuple) and v and v[0] == "X":
        tag, attrib, text, kids = v[1], v[2], v[3], v[4]
        t = None if text is None else ("s", text[1].strip())
        if t is not None and t[1] == "":
            t = None
        return ("X", tag, attrib, t, ("L", tuple(_norm(k) for k in kids[1])))
    return v


def check(case, ctx):
    import graphtage
    f = case["format"]
    diags = []
    monitors.TRAP.reset()
    ftype = graphtage.FILETYPES_BY_TYPENAME[f]
    try:
        data = formats.write(f, case["doc"], dialects=f != "xml")
    except Exception:
        if ctx is not None:
            ctx.count("dropped:reference-writer-rejects")
        return []
    path = families.tmpfile(data, formats.EXT[f])
    try:
        t1 = ftype.build_tree(path)
    except Exception:
        if ctx is not None:
            ctx.count("dropped:loader-rejects-reference-text")
        return []
    if f in ("json", "json5", "yaml", "plist"):
        from gv.oracle import canon
        want = canon(case["doc"])
        got = val(t1.root if f == "plist" else t1)
        if want != got:
            if ctx is not None:
                ctx.count("dropped:loader-and-writer-disagree-before-printing")
            return []
    try:
        text = render(ftype, t1, path, case["route"])
    except Exception as ex:  # noqa
        return [core.exc_diag("printing-raised", ex, route=case["route"])]
    p2 = families.tmpfile(text.encode("utf-8", "surrogatepass"), "-rt" + formats.EXT[f])
    try:
        t2 = ftype.build_tree(p2)
    except Exception as ex:  # noqa
        diags.append({"kind": "printed-text-rejected-by-loader", "exc": type(ex).__name__, "msg": str(ex)[:200], "text": text[:300],
                      "route": case["route"]})
        t2 = None
    if t2 is not None:
        v1, v2 = _norm(val(t1)), _norm(val(t2))
        if v1 != v2:
            from gv.props.c01 import _first_diff
            diags.append({"kind": "printed-text-loads-to-another-document", "route": case["route"], "text": text[:300], **_first_diff(v2, v1)})
        else:
            try:
                c12, c21 = t1.diff(t2).edited_cost(), t2.diff(t1).edited_cost()
                if c12 != 0 or c21 != 0:
                    diags.append({"kind": "roundtrip-diff-has-cost", "costs": [c12, c21], "route": case["route"]})
            except Exception as ex:  # noqa
                diags.append(core.exc_diag("roundtrip-diff-raised", ex))
            if ctx is not None and not (t1 == t2):
                ctx.count("api_eq_false_on_equal_values:" + f)
    if ctx is not None:
        ctx.count("roundtrips:" + f)
        ctx.count("route:" + case["route"])
        ctx.seen(case, nontrivial=sum(1 for _ in t1.dfs()) >= 3)
    return diags


def classify(case, diag):
    return None


def shrink_candidates(case):
    f, doc = case["format"], case["doc"]
    if f == "xml":
        for c in families.shrink_case({"family": "xml", "a": doc, "b": doc}):
            if c["a"] is not doc:
                yield {"format": f, "doc": c["a"], "route": case["route"]}
        return
    for s in gen.shrink_doc(doc):
        if f in ("yaml", "plist") and not isinstance(s, (dict, list)):
            continue
        if f == "csv" and not (isinstance(s, list) and all(isinstance(row, list) for row in s)):
            continue
        yield {"format": f, "doc": s, "route": case["route"]}


def coverage_extra(counters, tier):
    return {"exhaustive_subspaces": "thorough: every BMP code point (except surrogates) as JSON string value, key and list element"
            if tier == "thorough" else "none in the quick tier"}


LEVEL_TEXT = ("Runtime monitoring of the print->parse round trip on the real loaders and formatters of six formats, fed by independent "
              "writers: the printed text must be accepted by the same loader and load to the same document (value equality via the "
              "public node API and zero-cost diff both ways), through the library route and through the CLI (file diffed against "
              "itself). The thorough tier sweeps every BMP code point through JSON strings, keys and list elements.")
LEVEL_NOTE = ("Trusted: the stdlib/PyYAML writers, val(). YAML/plist/XML domains are restricted to alphanumeric scalars as the property "
              "states; NaN and documents on which writer and loader already disagree are not judged.")
TECHNIQUE = "runtime monitor: print -> re-load round trip on real formatters/loaders, judged by value equality + zero-cost diff"
