"""C10 — Matching options restrict the script as documented.

Monitor: walks the refined script of every (pair, option combination) and evaluates the documented
restriction on every mapping / list edit at every nesting level; also asserts which node classes and
flags the builders produced for each option (option plumbing)."""
import collections

from gv import core, families, gen, monitors
from gv.oracle import val

ID = "C10"
LEVEL = "exploration"
RULE = ("pairs of JSON-like / BasicBuilder / plist / PyObj documents and of data files loaded by the real JSON / JSON5 / YAML / pickle "
        "loaders in their dialects (YAML anchors+aliases and multi-document streams, pickles with shared objects) with renamed keys and shifted lists, nesting >= 3, x all 9 "
        "combinations of {auto,match,none} x {list edits on,off,off-when-same-length}; non-trivial = the script contains a mapping "
        "edit with a key present on both sides or a list edit with positional restriction in force; distinct = distinct case")
ASSUMPTIONS = ["XML child sequences and CSV rows are not 'lists' in the README's sense (their builders never receive the list "
               "options): recorded, not judged",
               "a list edit is judged only when both nodes are plain ListNode instances",
               "the target list of the `result = ...` assignment and the name list of an import, which the pickle loader's Python-AST "
               "wrapper creates around the data, are structure of the wrapper and not lists of the document: not judged"]
MINIMUMS = {"quick": {"mapping_edits_none": 1000, "mapping_edits_auto": 1000, "list_edits_positional": 2000, "builder_nodes_checked": 50000},
            "thorough": {"mapping_edits_none": 30000, "mapping_edits_auto": 30000, "list_edits_positional": 60000,
                         "builder_nodes_checked": 1000000}}


def plan(tier, seed):
    q = tier == "quick"
    specs = []
    n_json, per_json = (10, 200) if q else (16, 3500)
    for k in range(n_json):
        specs.append({"stratum": "json-x9-options", "family": "json", "n": per_json, "k": k, "all_options": True, "clean": True})
    if not q:
        for k in range(8):
            specs.append({"stratum": "json-large-documents", "family": "json", "n": 150, "k": k, "clean": True, "profile": "large",
                          "case_timeout": 120})
    per_f = 300 if q else 6000
    for fam in ["basic", "plist", "pyobj", "xml", "csv", "file"]:
        specs.append({"stratum": f"family-{fam}", "family": fam, "n": per_f if fam != "file" else per_f // 3, "k": 0, "clean": True,
                      "all_options": fam in ("basic", "file")})
    for k in range(2 if q else 8):
        specs.append({"stratum": "json-deep-and-wide", "family": "json", "n": 15 if q else 100, "k": k, "clean": True, "deepwide": True,
                      "case_timeout": 240, "shrink": False})
    specs.append({"stratum": "list-options-on-the-first-tree-only", "family": "json", "n": 600 if q else 8000, "k": 0, "clean": True,
                  "to_default": True})
    nsh = 4 if q else 8
    for k in range(nsh):
        specs.append({"stratum": "exhaustive-tiny", "exhaustive": True, "k": k, "of": nsh, "clean": True,
                      "maxlen": 2 if q else 3, "shrink": False, "shard_timeout": 3000})
    return specs


def gen_cases(spec, ctx):
    from gv.props import c01
    if spec.get("to_default"):
        # the restriction belongs to the list that is being edited (the first document's): the second tree is built with the
        # default options here, as happens when the two documents come from different loaders or callers
        for case in c01.gen_cases(spec, ctx):
            case["ds"] = "auto"
            case["le"] = ctx.rng.choice(["off", "same"])
            case["to_default"] = True
            yield case
        return
    yield from c01.gen_cases(spec, ctx)


def _structural(node):
    """Lists that are part of the Python-AST wrapper a pickle is loaded into (the targets of `result = ...`, the names of an
    import), not lists of the document."""
    from graphtage import pydiff
    return isinstance(node.parent, (pydiff.Assignment, pydiff.Import))


def _plumbing(tree, ds, le, ctx, diags, which):
    import graphtage
    from graphtage import xml as gx, csv as gc
    n = 0
    for node in tree.dfs():
        n += 1
        if isinstance(node, graphtage.MappingNode) and not isinstance(node.parent, gx.XMLElement):
            if ds == "none":
                ok = isinstance(node, graphtage.FixedKeyDictNode) and all(not kvp.allow_key_edits for kvp in node)
            else:
                ok = isinstance(node, graphtage.DictNode) and node.auto_match_keys == (ds == "auto") and \
                    all(kvp.allow_key_edits for kvp in node)
            if not ok:
                diags.append({"kind": "builder-ignored-dictionary-option", "tree": which, "node": type(node).__name__,
                              "auto_match_keys": getattr(node, "auto_match_keys", None)})
                return n
        elif type(node) is graphtage.ListNode:
            if _structural(node):
                continue
            if node.allow_list_edits != (le != "off") or node.allow_list_edits_when_same_length != (le != "same"):
                diags.append({"kind": "builder-ignored-list-option", "tree": which,
                              "flags": [node.allow_list_edits, node.allow_list_edits_when_same_length]})
                return n
    return n


def check(case, ctx):
    import graphtage
    from graphtage import edits as ge, xml as gx
    diags = []
    monitors.TRAP.reset()
    ds, le = case["ds"], case["le"]
    nontrivial = False
    try:
        ta, tb = families.build(case)
        if case.get("to_default"):
            import graphtage.json as gj
            tb = gj.build_tree(case["b"], graphtage.BuildOptions())
            if ctx is not None:
                ctx.count("second_tree_built_with_default_options")
        if case["family"] in ("json", "basic", "plist", "pyobj", "file") and not case.get("to_default"):
            n = _plumbing(ta, ds, le, ctx, diags, "first") + _plumbing(tb, ds, le, ctx, diags, "second")
            if ctx is not None:
                ctx.count("builder_nodes_checked", n)
        e = monitors.full(ta.edits(tb))
        for x in monitors.walk_script(e):
            subs = monitors.sub_edits(x)
            if subs is None:
                continue
            f, t = x.from_node, x.to_node
            if isinstance(f, graphtage.MappingNode) and isinstance(t, graphtage.MappingNode):
                in_xml = isinstance(f.parent, gx.XMLElement)
                mode = ("none" if isinstance(f, graphtage.FixedKeyDictNode) else
                        ("auto" if getattr(f, "auto_match_keys", False) else "match"))
                pairs = [(s.from_node, s.to_node) for s in subs
                         if not isinstance(s, (ge.Remove, ge.Insert)) and isinstance(s.from_node, graphtage.KeyValuePairNode)
                         and isinstance(s.to_node, graphtage.KeyValuePairNode)]
                if mode == "none":
                    if ctx is not None:
                        ctx.count("mapping_edits_none")
                    for fk, tk in pairs:
                        if val(fk.key) != val(tk.key):
                            diags.append({"kind": "none-strategy-paired-different-keys", "from_key": repr(val(fk.key)),
                                          "to_key": repr(val(tk.key)), "edit": type(x).__name__})
                            break
                elif mode == "auto":
                    if ctx is not None:
                        ctx.count("mapping_edits_auto")
                    fkeys = collections.Counter(val(k.key) for k in f)
                    tkeys = collections.Counter(val(k.key) for k in t)
                    shared = set(fkeys) & set(tkeys)
                    self_paired = collections.Counter(val(fk.key) for fk, tk in pairs if val(fk.key) == val(tk.key))
                    for k in shared:
                        nontrivial = True
                        if self_paired[k] < min(fkeys[k], tkeys[k]):
                            diags.append({"kind": "auto-strategy-shared-key-not-paired-with-itself", "key": repr(k),
                                          "edit": type(x).__name__, "in_xml_attributes": in_xml})
                            break
                else:
                    if ctx is not None:
                        ctx.count("mapping_edits_match")
            elif type(f) is graphtage.ListNode and type(t) is graphtage.ListNode and not _structural(f):
                positional = (not f.allow_list_edits) or (len(f) == len(t) and not f.allow_list_edits_when_same_length)
                if positional:
                    nontrivial = True
                    if ctx is not None:
                        ctx.count("list_edits_positional")
                        if len(f) != len(t):
                            ctx.count("list_edits_positional_with_surplus_tail")
                    fc, tc = list(f.children()), list(t.children())
                    m = min(len(fc), len(tc))
                    bad = None
                    if len(subs) != max(len(fc), len(tc)):
                        bad = f"{len(subs)} sub-edits for lists of length {len(fc)} and {len(tc)}"
                    else:
                        for i, s in enumerate(subs):
                            if i < m:
                                if isinstance(s, (ge.Remove, ge.Insert)) or s.from_node is not fc[i] or s.to_node is not tc[i]:
                                    bad = f"sub-edit {i} is not the positional pair"
                                    break
                            elif len(fc) > len(tc):
                                if not isinstance(s, ge.Remove) or s.from_node is not fc[i]:
                                    bad = f"sub-edit {i} is not the removal of surplus element {i}"
                                    break
                            else:
                                if not isinstance(s, ge.Insert) or s.from_node is not tc[i]:
                                    bad = f"sub-edit {i} is not the insertion of surplus element {i}"
                                    break
                    if bad:
                        diags.append({"kind": "list-edits-off-not-positional", "why": bad, "edit": type(x).__name__,
                                      "lens": [len(fc), len(tc)]})
                elif ctx is not None:
                    ctx.count("list_edits_free")
            elif isinstance(f, graphtage.ListNode) and ctx is not None:
                ctx.count("recorded_not_judged:" + type(f).__name__)
    except core.Budget as ex:
        diags.append({"kind": "step-budget", "msg": str(ex)[:200]})
    except Exception as ex:  # noqa
        diags.append(core.exc_diag("exception", ex))
    if ctx is not None:
        ctx.count(f"options:{ds}/{le}")
        ctx.seen(case, nontrivial)
    return diags[:3]


def classify(case, diag):
    return None


def shrink_candidates(case):
    yield from families.shrink_case(case)


def coverage_extra(counters, tier):
    return {"exhaustive": True,
            "exhaustive_subspaces": "all ordered pairs of lists over {0,1,'a',[0]} of length <= %d and of dicts over keys {a,b,c} x "
                                    "values {0,1}, each under all 9 option combinations" % (2 if tier == "quick" else 3)}


LEVEL_TEXT = ("Runtime monitoring of the refined scripts the real engine produces under every option combination: at every nesting "
              "level, 'none' never pairs items with different keys, 'auto' pairs every shared key with itself, and with list edits "
              "disabled the sub-edits are exactly the positional pairs followed by the surplus tail; the node classes/flags the "
              "builders create are checked for every node (option plumbing).")
LEVEL_NOTE = ("Trusted: the script walker and val(). XML child sequences and CSV rows are recorded but not judged. Sizes bounded as in C01.")
TECHNIQUE = "runtime monitor: rule evaluation on every mapping/list edit of real scripts + builder option plumbing assertions"
