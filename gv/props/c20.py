"""C20 — Malformed input is reported, not crashed on.

Fault enumeration + CLI observer: every truncation offset and every single-delimiter deletion /
duplication / unbalancing edit of each sampled valid document, as first and as second file.  A
corruption counts as malformed only if an independent recogniser AND the format's reference library
both reject it.  Expected: no exception escapes main(), non-zero return, no diff on stdout, the
file's base name on stderr."""
import json
import os
import plistlib
import re
import subprocess
import sys
import xml.etree.ElementTree as ET

from gv import core, families, formats, gen, monitors

ID = "C20"
LEVEL = "fault_enumeration"
RULE = ("for each text format {json, json5, yaml, xml, html, plist} and each sampled valid document (ASCII and non-ASCII text): "
        "truncation at every byte offset, deletion and duplication of every delimiter occurrence, unbalancing bracket/tag edits; "
        "each fault as first and as second file; kept only if an independent recogniser and the reference library both reject it; "
        "non-trivial = the fault was kept (is malformed); distinct = distinct (format, document, fault, position)")
ASSUMPTIONS = ["CSV (its reader accepts every byte string) and pickle (no independent notion of validity) are excluded by the property",
               "independent recognisers: hand-written strict JSON / lenient JSON5 / XML well-formedness scanners in this file, the "
               "pure-Python yaml.Loader (graphtage uses the C loader); reference libraries: json, json5, PyYAML, ElementTree, plistlib"]
MINIMUMS = {"quick": {"same_malformed_bytes_as_both_files": 800, "fault_with_options:-e": 400, "fault_with_options:-d": 400, "cli_on_a_terminal": 1500, "faults_judged": 6000, "faults_judged:json": 500, "faults_judged:json5": 300, "faults_judged:yaml": 150,
                      "faults_judged:xml": 500, "faults_judged:html": 500, "faults_judged:plist": 500, "subprocess_runs": 12},
            "thorough": {"cli_on_a_terminal": 20000, "faults_judged": 200000, "faults_judged:json": 20000, "faults_judged:json5": 5000, "faults_judged:yaml": 10000,
                         "faults_judged:xml": 20000, "faults_judged:html": 20000, "faults_judged:plist": 20000,
                         "subprocess_runs": 200}}
FORMATS = ["json", "json5", "yaml", "xml", "html", "plist"]


def plan(tier, seed):
    q = tier == "quick"
    specs = []
    for f in FORMATS:
        ndocs = {"json5": 2 if q else 12, "yaml": 14 if q else 80}.get(f, 6 if q else 40)
        for k in range(1 if q else 3):
            specs.append({"stratum": f"faults-{f}", "format": f, "docs": ndocs, "k": k, "clean": True, "shrink": False,
                          "stop_after_violations": 200, "shard_timeout": 3000})
    for k in range(2 if q else 8):
        specs.append({"stratum": "subprocess", "n": 8 if q else 30, "k": k, "clean": True, "shrink": False, "case_timeout": 90,
                      "shard_timeout": 3000})
    return specs


def valid_doc(r, f):
    if f in ("json", "json5", "yaml", "plist"):
        d = formats.common_data(r)
        if r.random() < 0.5:
            # non-ASCII text
            if isinstance(d, dict):
                d["né" + r.choice("ab")] = r.choice(["日本語", "x\U0001F600y", "é", "ü ß"])
            else:
                d.append(r.choice(["日本語", "x\U0001F600y", "é"]))
        if f in ("json", "json5"):
            raw = r.random() < 0.5
            if f == "json5" and any(c in formats.repr_text(d) for c in ("\u2028", "\u2029")):
                raw = False      # (the pinned json5 parser rejects a raw U+2028 / U+2029 inside a string: the *valid* file must load)
            return json.dumps(d, ensure_ascii=not raw, indent=r.choice([None, None, 1])).encode("utf-8")
        if f == "plist":
            return plistlib.dumps(d)          # the XML (text) form: binary plists are not a text format
        return formats.write(f, d)
    x = families.gen_xml(r)
    if r.random() < 0.5:
        x[2] = r.choice(["日本語", "é", "x\U0001F600y"])
    return families.xml_text(x).encode("utf-8")


DELIMS = {"json": b'{}[]":,', "json5": b'{}[]":,', "yaml": b":-'\"[]{}", "xml": b'<>/="', "html": b'<>/="', "plist": b'<>/="'}


def faults(data, f):
    """(name, bytes) for every enumerated fault of one document."""
    for i in range(len(data)):
        yield f"truncate@{i}", data[:i]
    dl = DELIMS[f]
    for i, b in enumerate(data):
        if b in dl:
            yield f"delete@{i}", data[:i] + data[i + 1:]
            yield f"duplicate@{i}", data[:i + 1] + data[i:]
    opening = {"json": b"[{", "json5": b"[{", "yaml": b"[{", "xml": b"<", "html": b"<", "plist": b"<"}[f]
    closing = {"json": b"]}", "json5": b"]}", "yaml": b"]}", "xml": b">", "html": b">", "plist": b">"}[f]
    for ch in opening:
        yield f"prepend-{chr(ch)}", bytes([ch]) + data
    for ch in closing:
        yield f"append-{chr(ch)}", data + bytes([ch])
    if f in ("xml", "html", "plist"):
        yield "append-stray-close-tag", data + b"</zz>"
        yield "prepend-stray-open-tag", b"<zz>" + data


# ---------------------------------------------------------------------------------------------
# independent recognisers
# ---------------------------------------------------------------------------------------------
class Bad(Exception):
    pass


def strict_json_ok(text):
    """Hand-written recogniser for the stdlib's JSON dialect (accepts NaN / Infinity like the stdlib)."""
    s = text
    n = len(s)
    i = 0

    def ws(i):
        while i < n and s[i] in " \t\n\r":
            i += 1
        return i

    def value(i, depth=0):
        if depth > 200:
            raise Bad()
        i = ws(i)
        if i >= n:
            raise Bad()
        c = s[i]
        if c == '"':
            return string(i)
        if c == "{":
            i = ws(i + 1)
            if i < n and s[i] == "}":
                return i + 1
            while True:
                i = ws(i)
                if i >= n or s[i] != '"':
                    raise Bad()
                i = ws(string(i))
                if i >= n or s[i] != ":":
                    raise Bad()
                i = ws(value(i + 1, depth + 1))
                if i < n and s[i] == ",":
                    i += 1
                    continue
                if i < n and s[i] == "}":
                    return i + 1
                raise Bad()
        if c == "[":
            i = ws(i + 1)
            if i < n and s[i] == "]":
                return i + 1
            while True:
                i = ws(value(i, depth + 1))
                if i < n and s[i] == ",":
                    i += 1
                    continue
                if i < n and s[i] == "]":
                    return i + 1
                raise Bad()
        for lit in ("true", "false", "null", "NaN", "Infinity", "-Infinity"):
            if s.startswith(lit, i):
                return i + len(lit)
        m = re.compile(r"-?(?:0|[1-9]\d*)(?:\.\d+)?(?:[eE][+-]?\d+)?").match(s, i)
        if m and m.end() > i:
            return m.end()
        raise Bad()

    def string(i):
        i += 1
        while i < n:
            c = s[i]
            if c == '"':
                return i + 1
            if c == "\\":
                if i + 1 >= n:
                    raise Bad()
                e = s[i + 1]
                if e == "u":
                    if not re.compile(r"[0-9a-fA-F]{4}").match(s, i + 2):
                        raise Bad()
                    i += 6
                    continue
                if e not in '"\\/bfnrt':
                    raise Bad()
                i += 2
                continue
            if ord(c) < 0x20:
                raise Bad()
            i += 1
        raise Bad()
    try:
        i = ws(value(0))
        return i == n
    except (Bad, RecursionError):
        return False


def lenient_json5_ok(text):
    """Lenient JSON5 recogniser (comments, trailing commas, single quotes, unquoted keys, hex, leading + and ., Infinity/NaN).
    Being too lenient only drops faults from the judged set; being too strict cannot create an alarm because the
    reference library must reject as well."""
    s = text
    n = len(s)

    def ws(i):
        while i < n:
            if s[i] in " \t\n\r ﻿  \v\f":
                i += 1
            elif s.startswith("//", i):
                while i < n and s[i] not in "\n\r":
                    i += 1
            elif s.startswith("/*", i):
                j = s.find("*/", i + 2)
                if j < 0:
                    raise Bad()
                i = j + 2
            else:
                break
        return i
    ident = re.compile(r"[A-Za-z_$][A-Za-z0-9_$]*")
    num = re.compile(r"[+-]?(?:0[xX][0-9a-fA-F]+|Infinity|NaN|(?:\d+\.?\d*|\.\d+)(?:[eE][+-]?\d+)?)")

    def string(i):
        q = s[i]
        i += 1
        while i < n:
            c = s[i]
            if c == q:
                return i + 1
            if c == "\\":
                i += 2
                continue
            if c in "\n\r":
                raise Bad()
            i += 1
        raise Bad()

    def value(i, depth=0):
        if depth > 200:
            raise Bad()
        i = ws(i)
        if i >= n:
            raise Bad()
        c = s[i]
        if c in "\"'":
            return string(i)
        if c == "{":
            i = ws(i + 1)
            while True:
                if i < n and s[i] == "}":
                    return i + 1
                if i < n and s[i] in "\"'":
                    i = string(i)
                else:
                    m = ident.match(s, i)
                    if not m:
                        raise Bad()
                    i = m.end()
                i = ws(i)
                if i >= n or s[i] != ":":
                    raise Bad()
                i = ws(value(i + 1, depth + 1))
                if i < n and s[i] == ",":
                    i = ws(i + 1)
                    continue
                if i < n and s[i] == "}":
                    return i + 1
                raise Bad()
        if c == "[":
            i = ws(i + 1)
            while True:
                if i < n and s[i] == "]":
                    return i + 1
                i = ws(value(i, depth + 1))
                if i < n and s[i] == ",":
                    i = ws(i + 1)
                    continue
                if i < n and s[i] == "]":
                    return i + 1
                raise Bad()
        for lit in ("true", "false", "null"):
            if s.startswith(lit, i):
                return i + len(lit)
        m = num.match(s, i)
        if m and m.end() > i:
            return m.end()
        raise Bad()
    try:
        return ws(value(0)) == n
    except (Bad, RecursionError, IndexError):
        return False


def xml_wellformed(text):
    """Well-formedness scanner for the generated XML family (elements, attributes, text, declaration, doctype, comments)."""
    s = text
    n = len(s)
    i = 0
    stack = []
    seen_root = False
    name = re.compile(r"[A-Za-z_:][A-Za-z0-9_.:\-]*")
    attr = re.compile(r"\s+([A-Za-z_:][A-Za-z0-9_.:\-]*)\s*=\s*(\"[^<\"]*\"|'[^<']*')")
    while i < n:
        if s[i] != "<":
            j = s.find("<", i)
            chunk = s[i:j if j >= 0 else n]
            if not stack and chunk.strip():
                return False
            if "&" in chunk and not re.fullmatch(r"(?:[^&]|&(?:amp|lt|gt|quot|apos|#\d+|#x[0-9a-fA-F]+);)*", chunk):
                return False
            i = j if j >= 0 else n
            continue
        if s.startswith("<?", i):
            j = s.find("?>", i)
            if j < 0 or (seen_root and s.startswith("<?xml", i)) or (s.startswith("<?xml", i) and i != 0):
                return False
            i = j + 2
            continue
        if s.startswith("<!--", i):
            j = s.find("-->", i + 4)
            if j < 0:
                return False
            i = j + 3
            continue
        if s.startswith("<!DOCTYPE", i):
            j = s.find(">", i)
            if j < 0 or seen_root:
                return False
            i = j + 1
            continue
        if s.startswith("</", i):
            m = name.match(s, i + 2)
            if not m:
                return False
            j = m.end()
            while j < n and s[j].isspace():
                j += 1
            if j >= n or s[j] != ">" or not stack or stack.pop() != m.group(0):
                return False
            i = j + 1
            continue
        m = name.match(s, i + 1)
        if not m:
            return False
        if not stack and seen_root:
            return False
        j = m.end()
        names = set()
        while True:
            a = attr.match(s, j)
            if not a:
                break
            if a.group(1) in names:
                return False
            if "&" in a.group(2) and not re.fullmatch(r"(?:[^&]|&(?:amp|lt|gt|quot|apos|#\d+|#x[0-9a-fA-F]+);)*", a.group(2)):
                return False
            names.add(a.group(1))
            j = a.end()
        while j < n and s[j].isspace():
            j += 1
        if s.startswith("/>", j):
            seen_root = True
            i = j + 2
            continue
        if j < n and s[j] == ">":
            stack.append(m.group(0))
            seen_root = True
            i = j + 1
            continue
        return False
    return seen_root and not stack


def is_malformed(f, data):
    """True only if BOTH the independent recogniser and the reference library reject."""
    try:
        text = data.decode("utf-8")
        decodable = True
    except UnicodeDecodeError:
        text, decodable = None, False
    if f == "json":
        if not decodable:
            return True          # not UTF-8: neither a JSON text for the recogniser nor for json.loads
        try:
            json.loads(text)
            return False
        except ValueError:
            pass
        return not strict_json_ok(text)
    if f == "json5":
        if not decodable:
            return True
        import json5
        try:
            json5.loads(text)
            return False
        except Exception:
            pass
        return not lenient_json5_ok(text) and not strict_json_ok(text)
    if f == "yaml":
        import yaml
        ok_c = ok_py = True
        # only a YAMLError is a verdict on the file's syntax; anything else (e.g. PyYAML's own IndexError while constructing an
        # empty scalar tagged !!int, which is well-formed YAML) is a crash of the reference parser, not a rejection
        try:
            list(yaml.load_all(data, Loader=yaml.CLoader))
        except yaml.YAMLError:
            ok_c = False
        except Exception:
            return False
        try:
            list(yaml.load_all(data, Loader=yaml.Loader))
        except yaml.YAMLError:
            ok_py = False
        except Exception:
            return False
        return not ok_c and not ok_py
    if f in ("xml", "html"):
        try:
            ET.fromstring(data)
            return False
        except ET.ParseError:
            pass
        except Exception:
            pass
        return not decodable or not xml_wellformed(text)
    if f == "plist":
        try:
            plistlib.loads(data)
            return False
        except Exception:
            pass
        if not decodable:
            return True
        if not xml_wellformed(text):
            return True
        # well-formed XML that is not a plist document
        return "<plist" not in text
    raise ValueError(f)


def gen_cases(spec, ctx):
    r = ctx.rng
    if spec["stratum"] == "subprocess":
        for _ in range(spec["n"]):
            f = r.choice(FORMATS)
            data = valid_doc(r, f)
            fl = [x for x in faults(data, f)]
            for _try in range(20):
                name, bad = r.choice(fl)
                if is_malformed(f, bad):
                    break
            else:
                continue
            yield {"format": f, "valid": data.hex(), "fault": name, "bad": bad.hex(), "position": r.choice([0, 1]), "subprocess": True}
        return
    f = spec["format"]
    for _ in range(spec["docs"]):
        data = valid_doc(r, f)
        for name, bad in faults(data, f):
            for pos in (0, 1):
                yield {"format": f, "valid": data.hex(), "fault": name, "bad": bad.hex(), "position": pos}


def check(case, ctx):
    f = case["format"]
    bad = bytes.fromhex(case["bad"])
    valid = bytes.fromhex(case["valid"])
    if ctx is not None:
        ctx.count("faults_enumerated")
    if not is_malformed(f, bad):
        if ctx is not None:
            ctx.count("fault_still_valid_or_recognisers_disagree (not judged)")
            ctx.seen(case, False)
        return []
    diags = []
    ext = formats.EXT[f]
    pbad = families.tmpfile(bad, "-broken" + ext)
    pgood = families.tmpfile(valid, "-good" + ext)
    # the other options of the invocation and the other file vary with the fault: output modes and formats that take other paths
    # through main(), and -- one time in six -- the same malformed bytes as *both* files (a copy, or the same path twice)
    h = len(bad) * 7 + case["position"] * 3 + sum(bad[:8])
    extra = [[], [], ["-e"], ["-d"], ["-j"], ["--format", "json"], ["-k"], ["--color"], ["-jl"], ["-e", "-k"], ["-d", "-l"]][h % 11]
    # (--html is left out: the HTML printer writes its page header before the files are read, which is not a diff)
    other = pgood
    if (h // 11) % 6 == 0:
        other = pbad if (h // 66) % 2 == 0 else families.tmpfile(bad, "-broken-copy" + ext)
        if ctx is not None:
            ctx.count("same_malformed_bytes_as_both_files")
    if ctx is not None and extra:
        ctx.count("fault_with_options:" + " ".join(extra))
    argv = ["--no-status"] + extra + ([pbad, other] if case["position"] == 0 else [other, pbad])
    base = os.path.basename(pbad)
    if case.get("subprocess"):
        env = dict(os.environ)
        env["PYTHONPATH"] = os.environ.get("VP_REPO", "/repo")
        p = subprocess.run([sys.executable, "-m", "graphtage"] + argv, capture_output=True, timeout=80, env=env, cwd=families.tmpdir())
        rc, out, err, exc = p.returncode, p.stdout.decode("utf8", "replace"), p.stderr.decode("utf8", "replace"), None
        if "Traceback (most recent call last)" in err:
            exc = err.strip().splitlines()[-1][:200]
        if ctx is not None:
            ctx.count("subprocess_runs")
    else:
        status_on = (len(bad) + case["position"]) % 2 == 0      # default user path: status on, real file descriptors
        tty = status_on and (len(bad) // 2 + case["position"]) % 2 == 0     # ... half of those on (pseudo-)terminals
        res = monitors.run_main(argv[1:] if status_on else argv, real_files=status_on, tty=tty)
        rc, out, err = res.rc, res.out, res.err
        if ctx is not None and status_on:
            ctx.count("cli_on_a_terminal" if tty else "cli_with_status_output_and_real_fds")
        exc = None if res.exc is None else f"{type(res.exc).__name__}: {str(res.exc)[:120]}"
        exc_type = None if res.exc is None else type(res.exc).__name__
    where = "first" if case["position"] == 0 else "second"
    if exc is not None:
        diags.append({"kind": "uncaught-exception", "exc": exc, "exc_type": exc.split(":")[0], "fault": case["fault"], "position": where})
    else:
        if rc == 0 or rc is None:
            diags.append({"kind": "exit-status-zero-on-malformed-input", "rc": rc, "fault": case["fault"], "position": where})
        if out.strip():
            diags.append({"kind": "diff-printed-for-malformed-input", "stdout": out[:200], "fault": case["fault"], "position": where})
        if base not in err and not (other != pgood and os.path.basename(other) in err):     # (either malformed file may be named)
            diags.append({"kind": "error-message-does-not-name-the-file", "stderr": err[:200], "fault": case["fault"], "position": where})
    if ctx is not None:
        ctx.count("faults_judged")
        ctx.count("faults_judged:" + f)
        ctx.count("fault_class:" + case["fault"].split("@")[0])
        ctx.count("position:" + where)
        ctx.seen(case, True, sample={"format": f, "fault": case["fault"], "position": where,
                                     "bad_text": bad[:80].decode("utf8", "replace")})
    return diags


def classify(case, diag):
    return None


def coverage_extra(counters, tier):
    return {"exhaustive": True,
            "exhaustive_subspaces": "every truncation offset and every delimiter deletion/duplication of each sampled document, both "
                                    "file positions",
            "fault_classes": {k[12:]: v for k, v in counters.items() if k.startswith("fault_class:")}}


LEVEL_TEXT = ("Fault enumeration with a CLI observer: for each sampled valid document of the six text formats every truncation offset, "
              "every delimiter deletion/duplication and unbalancing edit is produced, kept if an independent recogniser and the "
              "reference library both reject it, and fed to the real main() as first and as second file (plus a sample of real "
              "processes): no exception may escape, the status must be non-zero, stdout must carry no diff and stderr must name the file.")
LEVEL_NOTE = ("Trusted: the recognisers in gv/props/c20.py (errors there only shrink the judged set, because the reference library must "
              "reject too) and the reference libraries. Documents are sampled (6 per format quick, 120 thorough); faults per document "
              "are enumerated completely. Multi-fault corruptions are not explored.")
TECHNIQUE = "fault injection (every truncation offset / delimiter fault) + CLI observer; malformedness decided by two independent parsers"
