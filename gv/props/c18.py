"""C18 — Python objects are converted faithfully and cycles never hang.

Monitor: finite object graphs (trees, DAGs with sharing, self- and mutually-referential cycles through
lists / dicts / tuples / custom objects) are built from a JSON-able description and handed to the three
real entry points; to_obj() of the resulting tree is compared type-strictly with the original value,
entry points are compared with each other, copy() with the original tree; termination is a logical
budget on the number of Builder.expand calls (wrapped), with a wall-clock watchdog only as backstop."""
import collections

from gv import core, gen, monitors
from gv.oracle import canon, val

ID = "C18"
LEVEL = "exploration"
RULE = ("object graphs of 1..10 containers over {list, tuple, dict, set, custom object} with scalar leaves: trees, DAGs with sharing at "
        "several depths, self-loops, mutual cycles (depth 0..5) x entry point {json.build_tree, BasicBuilder, pydiff.build_tree} x "
        "dictionary strategy x list options x {check_for_cycles, ignore_cycles}; plus call histories on one builder instance (a part then the whole that contains it, the "
        "same structure twice, conversions after a reported cycle), each step compared with a fresh builder; non-trivial = graph has sharing or a cycle or "
        "depth >= 2; distinct = distinct (graph, entry point, options)")
ASSUMPTIONS = ["bytes, NaN and check_for_cycles=False on cyclic input are not judged",
               "json.build_tree has no cycle option: on cyclic input any prompt exception (RecursionError, ValueError) is accepted",
               "expand-call budget = 8*(size of the path-unfolding of the object graph)+32: shared sub-objects are legitimately expanded once per reference"]
MINIMUMS = {"quick": {"conversions_on_a_reused_builder": 1000, "acyclic_conversions": 4000, "cyclic_inputs": 1500, "dags_with_sharing": 300, "copies_judged": 3000},
            "thorough": {"conversions_on_a_reused_builder": 40000, "acyclic_conversions": 100000, "cyclic_inputs": 40000, "dags_with_sharing": 6000, "copies_judged": 40000}}
ENTRIES = ["json", "basic", "pydiff"]


class GVObj:
    pass


class GVObj2:
    pass


def plan(tier, seed):
    q = tier == "quick"
    ns, per = (8, 350) if q else (16, 5000)
    specs = [{"stratum": "object-graphs", "n": per, "k": k, "clean": True} for k in range(ns)]
    for k in range(2 if q else 8):
        specs.append({"stratum": "one-builder-many-conversions", "n": 300 if q else 4000, "k": k, "clean": True, "reuse": True})
    return specs


SCALARS = ["a", "ab", "", "k", 2, 3, 10, -1, 2**40, 1.5, True, False, None, "1", "True"]


def gen_graph(r):
    n = r.choice([1, 1, 2, 3, 4, 6, 10])
    shape = r.choice(["tree", "tree", "dag", "dag", "cyclic", "cyclic", "selfloop"])
    nodes = []
    for i in range(n):
        t = r.choice(["list", "list", "dict", "dict", "tuple", "set", "obj"])
        nodes.append({"t": t, "items": []})
    used_as_child = set()
    for i, nd in enumerate(nodes):
        k = r.randint(0, 4)
        for j in range(k):
            if nd["t"] == "set":
                ref = {"s": r.choice([s for s in SCALARS if s is not None and not isinstance(s, bool)] + [None])}
            else:
                x = r.random()
                cands = list(range(i + 1, n))                      # forward edges only: a tree/DAG
                if shape == "tree":
                    cands = [c for c in cands if c not in used_as_child]
                if x < 0.5 and cands:
                    c = r.choice(cands)
                    used_as_child.add(c)
                    ref = {"n": c}
                else:
                    ref = {"s": r.choice(SCALARS)}
            if nd["t"] in ("dict", "obj"):
                key = r.choice(["a", "b", "c", "k", "kk", 2, 3]) if nd["t"] == "dict" else r.choice(["a", "b", "c", "x_1"])
                if any(kk == key and type(kk) is type(key) for kk, _ in nd["items"]) or any(kk == key for kk, _ in nd["items"]):
                    continue
                nd["items"].append([key, ref])
            else:
                nd["items"].append(ref)
    if shape == "dag" and used_as_child:
        # make sure something is referenced twice (sharing at some depth)
        tgt = r.choice(sorted(used_as_child))
        srcs = [i for i, nd in enumerate(nodes) if i < tgt and nd["t"] in ("list", "tuple", "dict", "obj")]
        if srcs:
            src = r.choice(srcs)
            if nodes[src]["t"] in ("list", "tuple"):
                nodes[src]["items"].append({"n": tgt})
            else:
                nodes[src]["items"].append(["shared" + str(tgt), {"n": tgt}])
    if shape in ("cyclic", "selfloop"):
        # add one or two back edges through a mutable container
        muts = [i for i, nd in enumerate(nodes) if nd["t"] in ("list", "dict", "obj")]
        for _ in range(r.randint(1, 2)):
            if not muts:
                break
            src = r.choice(muts)
            dst = src if shape == "selfloop" else r.randint(0, src)
            ref = {"n": dst}
            if nodes[src]["t"] == "list":
                nodes[src]["items"].append(ref)
            else:
                key = "back" + str(len(nodes[src]["items"]))
                nodes[src]["items"].append([key, ref])
    return {"nodes": nodes, "root": 0}


def materialize(graph):
    nodes = graph["nodes"]
    objs = [None] * len(nodes)
    for i, nd in enumerate(nodes):
        if nd["t"] == "list":
            objs[i] = []
        elif nd["t"] == "dict":
            objs[i] = {}
        elif nd["t"] == "obj":
            objs[i] = GVObj() if i % 2 == 0 else GVObj2()

    def ref(rf):
        return rf["s"] if "s" in rf else objs[rf["n"]]
    # immutable containers in reverse index order (their references point forward, or back only through mutables)
    for i in range(len(nodes) - 1, -1, -1):
        nd = nodes[i]
        if nd["t"] == "tuple":
            if any("n" in rf and objs[rf["n"]] is None for rf in nd["items"]):
                raise ValueError("unbuildable")
            objs[i] = tuple(ref(rf) for rf in nd["items"])
        elif nd["t"] == "set":
            objs[i] = frozenset(rf["s"] for rf in nd["items"]) if i % 2 else set(rf["s"] for rf in nd["items"])
    for i, nd in enumerate(nodes):
        if nd["t"] == "list":
            objs[i].extend(ref(rf) for rf in nd["items"])
        elif nd["t"] == "dict":
            for k, rf in nd["items"]:
                objs[i][k] = ref(rf)
        elif nd["t"] == "obj":
            for k, rf in nd["items"]:
                setattr(objs[i], k, ref(rf))
    return objs[graph["root"]], objs


def analyse(root):
    """(nodes, edges, cyclic, shared, depth, has_set, has_obj, has_nonstring_key) of the reachable graph."""
    seen, edges = {}, 0
    on_stack = set()
    info = {"cyclic": False, "shared": False, "has_set": False, "has_obj": False, "nonstr_key": False, "depth": 0}

    def kids(o):
        if isinstance(o, (list, tuple)):
            return list(o)
        if isinstance(o, dict):
            return list(o.keys()) + list(o.values())
        if isinstance(o, (GVObj, GVObj2)):
            return [v for k, v in sorted(vars(o).items())]
        return []

    def walk(o, d):
        nonlocal edges
        if isinstance(o, (set, frozenset)):
            info["has_set"] = True
        if isinstance(o, (GVObj, GVObj2)):
            info["has_obj"] = True
        if isinstance(o, dict) and any(not isinstance(k, str) for k in o):
            info["nonstr_key"] = True
        if not isinstance(o, (list, tuple, dict, set, frozenset, GVObj, GVObj2)):
            return
        info["depth"] = max(info["depth"], d)
        if id(o) in on_stack:
            info["cyclic"] = True
            return
        if id(o) in seen:
            info["shared"] = True
            return
        seen[id(o)] = o
        on_stack.add(id(o))
        for c in kids(o):
            edges += 1
            walk(c, d + 1)
        on_stack.discard(id(o))
    walk(root, 0)

    # size of the unfolding the builders legitimately walk: shared sub-objects are expanded once per reference,
    # a path stops at the first object that repeats on it
    def unfold(o, path, cap=[200000]):
        cap[0] -= 1
        if cap[0] < 0 or not isinstance(o, (list, tuple, dict, set, frozenset, GVObj, GVObj2)) or id(o) in path:
            return 1
        path.add(id(o))
        ks = list(o) if isinstance(o, (set, frozenset)) else kids(o)
        if isinstance(o, (GVObj, GVObj2)):
            ks = ks + list(vars(o).keys()) + [type(o).__name__]
        total = 1 + sum(unfold(c, path) for c in ks)
        path.discard(id(o))
        return total
    info["unfolded"] = unfold(root, set())
    return len(seen), edges, info


def expected(o):
    """Plain value with tuples read back as lists, sets as multisets, custom objects as {class: {attr: value}}."""
    if isinstance(o, (list, tuple)):
        return [expected(v) for v in o]
    if isinstance(o, dict):
        return {k: expected(v) for k, v in o.items()}
    if isinstance(o, (set, frozenset)):
        return collections.Counter(o)
    if isinstance(o, (GVObj, GVObj2)):
        return {"$obj": type(o).__name__, "attrs": {k: expected(v) for k, v in vars(o).items()}}
    return o


def gen_cases(spec, ctx):
    r = ctx.rng
    if spec.get("reuse"):
        # the call-history dimension: one builder instance converts several structures in a row (both documents of a comparison,
        # a part and then the whole that contains it, a retry after a reported cycle, the same structure twice)
        for _ in range(spec["n"]):
            gs = [gen_graph(r) for _ in range(r.randint(2, 4))]
            yield {"reuse": True, "graphs": gs, "entry": r.choice(["basic", "pydiff"]), "ds": r.choice(gen.DS), "le": r.choice(gen.LE),
                   "ignore_cycles": r.random() < 0.4, "seed": r.randrange(1 << 30)}
        return
    for _ in range(spec["n"]):
        g = gen_graph(r)
        for entry in ENTRIES:
            yield {"graph": g, "entry": entry, "ds": r.choice(gen.DS), "le": r.choice(gen.LE),
                   "ignore_cycles": r.random() < 0.5}


_expand_calls = [0]
_wrapped = [False]


def setup(ctx):
    if _wrapped[0]:
        return
    from graphtage import builder
    orig = builder.Builder.expand

    def expand(self, node):
        _expand_calls[0] += 1
        if _expand_calls[0] > _budget[0]:
            raise core.Budget(f"more than {_budget[0]} Builder.expand calls for a graph of this size")
        return orig(self, node)
    builder.Builder.expand = expand
    _wrapped[0] = True


_budget = [10 ** 9]


def _outcome(builder, obj):
    from graphtage.builder import CyclicReference
    try:
        tree = builder.build_tree(obj)
    except core.Budget:
        raise
    except RecursionError:
        return ("RecursionError",)
    except Exception as ex:  # noqa
        return (type(ex).__name__, "cycle" in str(ex).lower())
    return ("tree", val(tree), sum(1 for n in tree.dfs() if isinstance(n, CyclicReference)))


def check_reuse(case, ctx):
    """One builder, many conversions: every conversion must come out exactly as it does on a fresh builder."""
    import random
    from graphtage.builder import BasicBuilder
    import graphtage.pydiff as gpd
    r = random.Random(case["seed"])
    opts = gen.build_options(case["ds"], case["le"], ignore_cycles=case["ignore_cycles"])
    cls = BasicBuilder if case["entry"] == "basic" else gpd.PyObjBuilder
    keep = []        # the objects stay alive for the whole history (no address reuse between steps by accident of this harness)
    steps = []
    for g in case["graphs"]:
        try:
            root, objs = materialize(g)
        except ValueError:
            continue
        keep.append(objs)
        nn, ne, info = analyse(root)
        if case["entry"] == "basic" and info["has_obj"]:
            continue
        parts = [o for o in objs[1:] if isinstance(o, (list, dict, tuple))]
        x = r.random()
        if parts and x < 0.45:
            steps.append(("part", r.choice(parts)))
            steps.append(("whole", root))
        elif x < 0.6:
            steps.append(("whole", root))
            steps.append(("again", root))
        elif parts and x < 0.75:
            steps.append(("whole", root))
            steps.append(("part-after", r.choice(parts)))
        else:
            steps.append(("whole", root))
    if len(steps) < 2:
        return []
    _budget[0] = 10 ** 9
    shared = cls(opts)
    diags = []
    for i, (what, obj) in enumerate(steps):
        _expand_calls[0] = 0
        _budget[0] = 8 * analyse(obj)[2]["unfolded"] + 32
        try:
            got = _outcome(shared, obj)
            _expand_calls[0] = 0
            want = _outcome(cls(opts), obj)
        except core.Budget as ex:
            diags.append({"kind": "expand-budget-exceeded", "entry": case["entry"], "msg": str(ex), "step": i})
            break
        if ctx is not None:
            ctx.count("conversions_on_a_reused_builder")
            ctx.count("reuse_step:" + what)
            if want[0] != "tree":
                ctx.count("reuse_step_after_or_at_failure")
        if got != want:
            diags.append({"kind": "reused-builder-converts-differently", "entry": case["entry"], "step": i, "what": what,
                          "history": [w for w, _ in steps[:i + 1]], "fresh": repr(want)[:200], "reused": repr(got)[:200]})
            break
    if ctx is not None:
        ctx.seen(case, nontrivial=True)
    return diags


def check(case, ctx):
    import graphtage
    import graphtage.json as gj
    from graphtage.builder import BasicBuilder, CyclicReference
    import graphtage.pydiff as gpd
    if case.get("reuse"):
        return check_reuse(case, ctx)
    diags = []
    try:
        root, objs = materialize(case["graph"])
    except ValueError:
        return []
    nn, ne, info = analyse(root)
    entry = case["entry"]
    if entry == "json" and (info["has_set"] or info["has_obj"]):
        return []        # json.build_tree documents list/dict/scalars only
    if entry == "basic" and info["has_obj"]:
        return []        # custom objects are pydiff's domain
    opts = gen.build_options(case["ds"], case["le"], ignore_cycles=case["ignore_cycles"])
    _expand_calls[0] = 0
    _budget[0] = 8 * info["unfolded"] + 32
    cyclic = info["cyclic"]
    try:
        try:
            if entry == "json":
                tree = gj.build_tree(root, opts)
            elif entry == "basic":
                tree = BasicBuilder(opts).build_tree(root)
            else:
                tree = gpd.build_tree(root, opts)
            exc = None
        except core.Budget:
            raise
        except RecursionError as ex:
            tree, exc = None, ex
        except Exception as ex:  # noqa
            tree, exc = None, ex
        if ctx is not None:
            ctx.count("expand_calls", _expand_calls[0])
        if cyclic:
            if ctx is not None:
                ctx.count("cyclic_inputs")
                ctx.count(f"cyclic:{entry}:{'ignore' if case['ignore_cycles'] else 'check'}")
            if entry == "json":
                if exc is None:
                    diags.append({"kind": "cyclic-input-converted-without-any-signal", "entry": entry})
            elif case["ignore_cycles"]:
                if exc is not None:
                    diags.append(core.exc_diag("cycle-not-ignored", exc, entry=entry))
                else:
                    n_place = sum(1 for n in tree.dfs() if isinstance(n, CyclicReference))
                    if n_place == 0:
                        diags.append({"kind": "ignored-cycle-left-no-placeholder", "entry": entry})
            else:
                if exc is None:
                    diags.append({"kind": "cycle-not-reported", "entry": entry})
                elif not (isinstance(exc, ValueError) and "cycle" in str(exc).lower()):
                    diags.append(core.exc_diag("cycle-reported-with-wrong-error", exc, entry=entry))
        else:
            if info["shared"] and ctx is not None:
                ctx.count("dags_with_sharing")
            if exc is not None:
                kind = "shared-subobject-mistaken-for-cycle" if (isinstance(exc, ValueError) and "cycle" in str(exc).lower()) \
                    else "conversion-raised"
                diags.append(core.exc_diag(kind, exc, entry=entry, shared=info["shared"]))
            else:
                if ctx is not None:
                    ctx.count("acyclic_conversions")
                    ctx.count(f"acyclic:{entry}")
                if any(isinstance(n, CyclicReference) for n in tree.dfs()):
                    diags.append({"kind": "placeholder-in-acyclic-structure", "entry": entry, "shared": info["shared"]})
                want = canon(_plain(expected(root), entry))
                try:
                    got_obj = tree.to_obj()
                    got = canon(_plain_got(got_obj))
                    if got != want:
                        from gv.props.c01 import _first_diff
                        diags.append({"kind": "to_obj-differs-from-original", "entry": entry, **_first_diff(got, want)})
                except Exception as ex:  # noqa
                    diags.append(core.exc_diag("to_obj-raised", ex, entry=entry))
                # all entry points agree on the tree
                if entry != "json" and not info["has_set"] and not info["has_obj"]:
                    other = gj.build_tree(root, opts)
                    if val(other) != val(tree):
                        diags.append({"kind": "entry-points-disagree", "entry": entry})
                    elif _shape(other) != _shape(tree):
                        # same values, but built differently (node classes / option flags): "identically ... under every build option"
                        diags.append({"kind": "entry-points-build-different-trees", "entry": entry, "vs": "json",
                                      **_first_shape_diff(_shape(tree), _shape(other))})
                    if ctx is not None:
                        ctx.count("entry_point_shapes_compared")
                if entry == "pydiff" and not info["has_obj"]:
                    other = BasicBuilder(opts).build_tree(root)
                    if val(other) != val(tree):
                        diags.append({"kind": "entry-points-disagree", "entry": entry, "vs": "basic"})
                    elif _shape(other) != _shape(tree):
                        diags.append({"kind": "entry-points-build-different-trees", "entry": entry, "vs": "basic",
                                      **_first_shape_diff(_shape(tree), _shape(other))})
                # deep copy
                try:
                    cp = tree.copy()
                    if ctx is not None:
                        ctx.count("copies_judged")
                    if cp is tree or val(cp) != val(tree) or not (cp == tree):
                        diags.append({"kind": "copy-not-equal", "entry": entry, "same_values": val(cp) == val(tree), "eq": cp == tree})
                    ids = {id(n) for n in tree.dfs()}
                    if any(id(n) in ids for n in cp.dfs()):
                        diags.append({"kind": "copy-shares-nodes-with-original", "entry": entry})
                except Exception as ex:  # noqa
                    diags.append(core.exc_diag("copy-raised", ex, entry=entry))
    except core.Budget as ex:
        diags.append({"kind": "expand-budget-exceeded", "entry": entry, "msg": str(ex), "cyclic": cyclic})
    if ctx is not None:
        ctx.seen(case, nontrivial=cyclic or info["shared"] or info["depth"] >= 2)
    return diags


def _shape(tree):
    """How the tree was built: node class and option flags of every node, in dfs order."""
    import graphtage
    out = []
    for n in tree.dfs():
        item = [type(n).__name__]
        if isinstance(n, graphtage.ListNode):
            item += [n.allow_list_edits, n.allow_list_edits_when_same_length]
        if isinstance(n, graphtage.DictNode) or isinstance(n, graphtage.MultiSetNode):
            item += [getattr(n, "auto_match_keys", None)]
        if isinstance(n, graphtage.KeyValuePairNode):
            item += [n.allow_key_edits]
        out.append(tuple(item))
    return out


def _first_shape_diff(a, b):
    for i, (x, y) in enumerate(zip(a, b)):
        if x != y:
            return {"node": i, "this_entry": repr(x), "other_entry": repr(y)}
    return {"node": min(len(a), len(b)), "this_entry": f"{len(a)} nodes", "other_entry": f"{len(b)} nodes"}


def _plain(e, entry):
    """Expected value in the shape to_obj() documents: custom objects as {class name: {attr: value}}."""
    if isinstance(e, dict) and "$obj" in e:
        return {e["$obj"]: {k: _plain(v, entry) for k, v in e["attrs"].items()}}
    if isinstance(e, dict):
        return {k: _plain(v, entry) for k, v in e.items()}
    if isinstance(e, list):
        return [_plain(v, entry) for v in e]
    return e


def _plain_got(o):
    import graphtage
    from graphtage.utils import HashableCounter
    if isinstance(o, collections.Counter):
        return collections.Counter({_hashable(_plain_got(k)): v for k, v in o.items()})
    if isinstance(o, dict):
        return {(_leafkey(k)): _plain_got(v) for k, v in o.items()}
    if isinstance(o, (list, tuple)):
        return [_plain_got(v) for v in o]
    if isinstance(o, graphtage.TreeNode):
        return ("<node leaked into to_obj>", repr(o)[:60])
    return o


def _leafkey(k):
    import graphtage
    if isinstance(k, graphtage.LeafNode):
        return k.object       # PyObj.to_obj() keys its dict by the class-name node
    return k


def _hashable(v):
    return tuple(v) if isinstance(v, list) else v


def classify(case, diag):
    return None


def shrink_candidates(case):
    if case.get("reuse"):
        for i in range(len(case["graphs"])):
            if len(case["graphs"]) > 1:
                c = dict(case)
                c["graphs"] = case["graphs"][:i] + case["graphs"][i + 1:]
                yield c
        return
    g = case["graph"]
    nodes = g["nodes"]
    for i, nd in enumerate(nodes):
        for j in range(len(nd["items"])):
            n2 = [dict(x, items=list(x["items"])) for x in nodes]
            del n2[i]["items"][j]
            c = dict(case)
            c["graph"] = {"nodes": n2, "root": 0}
            yield c


LEVEL_TEXT = ("Runtime monitoring of the three real builder entry points on generated finite object graphs (trees, DAGs with sharing, "
              "self-loops, mutual cycles through list/dict/tuple/custom objects): to_obj() is compared type-strictly with the original, "
              "entry points with each other, copy() with the tree; sharing must not be taken for a cycle; a cycle must end in the cycle "
              "error or (ignore_cycles) a placeholder, within a logical budget on wrapped Builder.expand calls.")
LEVEL_NOTE = ("Trusted: the graph materialiser/analyser in gv/props/c18.py, canon(). Graph size <= 10 containers; bytes, NaN and "
              "check_for_cycles=False on cyclic input are not judged.")
TECHNIQUE = "runtime monitor: generated object graphs vs to_obj()/copy()/cross-entry agreement + expand-call budget (wrapped)"
