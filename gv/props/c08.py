"""C08 — Mappings are unordered, lists are ordered.

Metamorphic monitor over real executions: the pairing (multiset of (edit class, from value, to value))
and the total cost of the refined script must be identical for a pair and for >= 3 key-permuted
variants of it (any depth, either side); a document and its key-permuted copy must be equal with zero
cost; swapping two unequal list elements must cost something."""
import collections
import copy
import itertools

from gv import core, families, gen, monitors
from gv.oracle import val, typed_eq, canon

ID = "C08"
LEVEL = "exploration"
RULE = ("pairs of documents with mappings that have ties (equal values under different keys, keys at equal edit distance) and "
        "mixed-type keys through BasicBuilder (incl. keys of different types with the same text: 2 / '2', True / 'True', None / 'None'), x {auto,match,none} x >= 3 random key permutations at all depths on either side "
        "(thorough: all 24 permutations of 4-key dicts), plus list-swap cases; non-trivial = some mapping with >= 2 keys was "
        "actually re-ordered and the pair is unequal; distinct = distinct (pair, options, permutation)")
ASSUMPTIONS = ["the order in which sub-edits are listed or printed is not judged (pairings are compared as multisets)",
               "list-swap: the two swapped elements are unequal under the type-strict oracle"]
MINIMUMS = {"quick": {"permutation_comparisons": 5000, "self_comparisons": 1500, "list_swaps": 1000},
            "thorough": {"permutation_comparisons": 150000, "self_comparisons": 40000, "list_swaps": 30000}}


def plan(tier, seed):
    q = tier == "quick"
    specs = []
    ns, per = (8, 150) if q else (16, 2500)
    for k in range(ns):
        specs.append({"stratum": "json-permutations", "n": per, "k": k, "clean": True})
    for k in range(2 if q else 4):
        specs.append({"stratum": "basic-mixed-keys", "n": 900 if q else 4000, "k": k, "clean": True})
    for k in range(2 if q else 4):
        specs.append({"stratum": "keys-of-different-types-with-equal-text", "n": 900 if q else 5000, "k": k, "clean": True})
    for k in range(2 if q else 8):
        specs.append({"stratum": "list-swap", "n": 700 if q else 6000, "k": k, "clean": True})
    for k in range(2 if q else 8):
        specs.append({"stratum": "xml-attribute-permutations", "n": 90 if q else 2000, "k": k, "clean": True})
    for k in range(2 if q else 8):
        # size is a dimension too: a canonical order applied only to small mappings passes every stratum above
        specs.append({"stratum": "wide-mappings-with-ties", "n": 10 if q else 60, "k": k, "clean": True})
    if not q:
        for k in range(8):
            specs.append({"stratum": "all-24-permutations", "n": 250, "k": k, "clean": True})
    return specs


def tie_dict(r, prof, depth=0):
    """Mapping biased towards matching ties."""
    n = r.randint(2, 5)
    vals = [gen.gdoc(r, prof, depth + 1, 3, 3) for _ in range(2)]
    base = gen.gstr(r, prof) or "k"
    d = {}
    for i in range(n):
        x = r.random()
        if x < 0.4:
            k = base + r.choice(prof.alpha)           # keys at equal edit distance from each other
        elif x < 0.6:
            k = r.choice(prof.alpha) + base
        else:
            k = gen.gstr(r, prof)
        v = copy.deepcopy(r.choice(vals)) if r.random() < 0.5 else (tie_dict(r, prof, depth + 1) if depth < 2 and r.random() < 0.4
                                                                    else gen.gdoc(r, prof, depth + 1, 3, 3))
        d[k] = v
    return d


def gen_cases(spec, ctx):
    r = ctx.rng
    st = spec["stratum"]
    prof = gen.CLEAN
    if st in ("json-permutations", "all-24-permutations"):
        for _ in range(spec["n"]):
            a = tie_dict(r, prof)
            if st == "all-24-permutations":
                while len(a) < 4:
                    a[gen.gstr(r, prof) + str(len(a))] = gen.gdoc(r, prof, 2, 3, 3)
                a = dict(list(a.items())[:4])
            x = r.random()
            if x < 0.15:
                b = copy.deepcopy(a)
            elif x < 0.8:
                b = gen.mutate(r, a, prof, rate=0.5)
                if not isinstance(b, dict):
                    b = tie_dict(r, prof)
            else:
                b = tie_dict(r, prof)
            if r.random() < 0.3:
                a, b = [a, 2], [3, b]       # nested inside lists
            for ds in gen.DS:
                yield {"family": "json", "a": a, "b": b, "ds": ds, "le": r.choice(gen.LE), "seed": r.randrange(1 << 30),
                       "all24": st == "all-24-permutations"}
        return
    if st == "wide-mappings-with-ties":
        for _ in range(spec["n"]):
            width = r.choice((33, 49, 50, 65, 70, 100, 129, 140))
            shared = {"s%03d" % i: r.choice((0, 1, "v", None)) for i in range(width)}
            v = r.choice((7, "x", [1]))
            ka = ["%s%s" % (c, "x") for c in r.sample("abcdefgh", r.randint(2, 3))]
            kb = ["%s%s" % (c, "x") for c in r.sample("mnopqrst", r.randint(2, 3))]
            a = dict(shared)
            b = dict(shared)
            for k_ in ka:
                a[k_] = v                 # unshared keys at equal distance from each other, equal values: ties
            for k_ in kb:
                b[k_] = v
            ai, bi = list(a.items()), list(b.items())
            r.shuffle(ai)
            r.shuffle(bi)
            a, b = dict(ai), dict(bi)
            if r.random() < 0.3:
                a, b = {"outer": a, "n": 1}, {"outer": b, "n": 2}
            ctx.count("wide_mappings_above_%d_keys" % (64 if width > 64 else 48 if width > 48 else 32))
            yield {"family": "json", "a": a, "b": b, "ds": "auto", "le": "on", "seed": r.randrange(1 << 30)}
        return
    if st == "xml-attribute-permutations":
        # XML attributes are mappings too: their order in the file must not matter
        def fatten(x):
            t, at, tx, kids = x
            at = dict(at)
            for _ in range(r.randint(1, 3)):
                at[families._xs(r)] = families._xs(r, 0)
            return [t, at, tx, [fatten(k) for k in kids]]
        for _ in range(spec["n"]):
            a = fatten(families.gen_xml(r, 1))
            b = families.mut_xml(r, a) if r.random() < 0.85 else fatten(families.gen_xml(r, 1))
            for ds in gen.DS:
                yield {"family": "xml", "a": a, "b": b, "ds": ds, "le": "on", "seed": r.randrange(1 << 30)}
        return
    if st == "basic-mixed-keys":
        for _ in range(spec["n"]):
            pool = ["a", "b", "ab", "ba", 2, 3, 10, 12, "k", "ka", "kb", 2.5, True, "", "2"]
            if r.random() < 0.25:
                # bytes keys (in-memory objects and pickles have them), incl. ones that are not valid UTF-8 and one that spells "k"
                pool = pool + [{"$bytes": "6b"}, {"$bytes": "80"}, {"$bytes": "81"}, {"$bytes": "c3a9"}, {"$bytes": "ff6b"}] * 2
            keys = []
            for k in r.sample(pool, r.randint(2, 5)):
                if k not in keys:
                    keys.append(k)
            a = {"$dict": [[k, gen.gdoc(r, gen.PLAIN, 2, 3, 3)] for k in keys]}
            items = [[k, (gen.mutate(r, v, gen.PLAIN) if r.random() < 0.5 else v)] for k, v in a["$dict"]]
            if r.random() < 0.4:
                items = items[1:]
            if r.random() < 0.4:
                items.append(["zz", 5])
            b = {"$dict": items}
            # graphtage cannot edit a bytes string (StringNode edits iterate str characters), so documents with bytes keys are only
            # compared with their own key-permuted copies (no key is edited there): the "equal at zero cost" half of the property
            has_bytes = any(isinstance(k, dict) for k in keys)
            for ds in gen.DS:
                c = {"family": "basic", "a": a, "b": b, "ds": ds, "le": "on", "seed": r.randrange(1 << 30)}
                if has_bytes:
                    c["self_only"] = True
                yield c
        return
    if st == "keys-of-different-types-with-equal-text":
        # keys whose str() coincide but whose types differ (2 / "2", 2.5 / "2.5", True / "True", None / "None"): an ordering of the
        # pairs that looks only at the text leaves such keys in file order; small value pool => many cost ties
        groups = [[2, "2"], [2.5, "2.5"], [True, "True"], [False, "False"], [None, "None"], [10, "10"], [1, "1"], [3, "3"],
                  # different string keys that a "natural", case-folding or normalising order would rank as equal
                  ["v1", "v01"], ["7", "007"], ["a2", "a02", "a002"], ["Key", "key"], ["e\u0301", "\u00e9"], ["k", "k "], ["x10", "x010"]]
        values = ["x", "b", "xy", 10, 2, {"$dict": []}, [], "abc"]
        def side():
            ks = []
            for g in r.sample(groups, r.randint(1, 3)):
                ks.extend(g if r.random() < 0.6 else [r.choice(g)])
            ks.extend(r.sample(["a", "b", "k"], r.randint(0, 2)))
            # 1 == True and 0 == False as mapping keys: keep one of each python-equal class
            out, seen = [], []
            for k in ks:
                if any(k == o and type(k) is type(o) for o in seen):
                    continue            # the very same key twice
                if not any(k == o and type(k) is not str and type(o) is not str for o in seen):
                    out.append(k)
                    seen.append(k)
            r.shuffle(out)
            return {"$dict": [[k, r.choice(values)] for k in out]}
        for _ in range(spec["n"]):
            a, b = side(), side()
            for ds in ("auto", "match"):
                yield {"family": "basic", "a": a, "b": b, "ds": ds, "le": "on", "seed": r.randrange(1 << 30)}
        return
    if st == "list-swap":
        for _ in range(spec["n"]):
            n = r.randint(2, 6)
            lst = [gen.gdoc(r, gen.HOSTILE, 1, 3, 3) for _ in range(n)]
            i, j = r.sample(range(n), 2)
            if r.random() < 0.2:
                # items of size zero (null, the empty string, empty containers) among scalars: removing and re-inserting one
                # costs least, so a swap of two *different* ones is where "costs something" is closest to failing
                lst = [gen.gscalar(r, gen.HOSTILE) for _ in range(n)]
                lst[i], lst[j] = r.sample([None, "", [], {}], 2)
            if typed_eq(lst[i], lst[j]) or _twins(lst[i], lst[j]):
                continue
            depth = r.randint(0, 2)
            a, b = lst, list(lst)
            b[i], b[j] = b[j], b[i]
            for _ in range(depth):
                a, b = ({"k": a}, {"k": b}) if r.random() < 0.5 else ([a, "z"], [b, "z"])
            yield {"family": "json", "a": a, "b": b, "ds": r.choice(gen.DS), "le": r.choice(gen.LE), "swap": True}


def _twins(x, y):
    from gv.oracle import has_int_float_twin
    return has_int_float_twin(x, y)


def _perm(r, o, stats):
    if isinstance(o, dict) and "$dict" in o:
        items = [[k, _perm(r, v, stats)] for k, v in o["$dict"]]
        if len(items) >= 2:
            before = [k for k, _ in items]
            r.shuffle(items)
            if [k for k, _ in items] != before:
                stats[0] += 1
        return {"$dict": items}
    if isinstance(o, dict):
        items = [(k, _perm(r, v, stats)) for k, v in o.items()]
        if len(items) >= 2:
            before = [k for k, _ in items]
            r.shuffle(items)
            if [k for k, _ in items] != before:
                stats[0] += 1
        return dict(items)
    if isinstance(o, list):
        return [_perm(r, v, stats) for v in o]
    return o


def observe(case):
    """(total cost, pairing multiset) of the refined script on the real trees."""
    ta, tb = families.build(case)
    e = monitors.full(ta.edits(tb))
    cost = monitors.tight(e)
    pairing = collections.Counter()
    for x in monitors.walk_script(e):
        from graphtage import edits as ge
        to = None if isinstance(x, (ge.Remove, ge.Insert)) or x.to_node is None else val(x.to_node)
        pairing[(type(x).__name__, val(x.from_node), to)] += 1
    return (str(cost.lower_bound), str(cost.upper_bound)), pairing, ta, tb


def check(case, ctx):
    import random
    diags = []
    monitors.TRAP.reset()
    try:
        if case.get("swap"):
            ta, tb = families.build(case)
            d = ta.diff(tb)
            cost = d.edited_cost()
            if ctx is not None:
                ctx.count("list_swaps")
            if cost == 0 or ta == tb:
                diags.append({"kind": "list-swap-costs-nothing", "cost": cost, "tree_eq": ta == tb})
            if ctx is not None:
                ctx.seen(case, True)
            return diags
        r = random.Random(case["seed"])
        moved = 0
        variants = []
        if case.get("self_only"):
            if ctx is not None:
                ctx.count("self_comparisons_with_bytes_keys")
            moved = 1
        else:
            ref_cost, ref_pairing, ta, tb = observe(case)
        if case.get("self_only"):
            pass
        elif case.get("all24") and isinstance(case["a"], dict) and len(case["a"]) == 4:
            items = list(case["a"].items())
            for p in itertools.permutations(items):
                variants.append((dict(p), case["b"]))
            moved = 23
        else:
            for i in range(4):
                st = [0]
                if i == 3:   # reversal of every mapping
                    va, vb = _rev(case["a"]), _rev(case["b"])
                    st[0] = 1
                else:
                    va = _perm(r, case["a"], st) if i != 1 else case["a"]
                    vb = _perm(r, case["b"], st) if i != 0 else case["b"]
                moved += st[0]
                variants.append((va, vb))
        for va, vb in variants:
            c2 = dict(case)
            c2["a"], c2["b"] = va, vb
            cost, pairing, _, _ = observe(c2)
            if ctx is not None:
                ctx.count("permutation_comparisons")
            if cost != ref_cost:
                diags.append({"kind": "key-order-changes-cost", "ref": ref_cost, "got": cost, "variant_a": va, "variant_b": vb})
                break
            if pairing != ref_pairing:
                only_ref = list((ref_pairing - pairing).items())[:3]
                only_got = list((pairing - ref_pairing).items())[:3]
                diags.append({"kind": "key-order-changes-pairing", "only_in_reference": repr(only_ref)[:300],
                              "only_in_variant": repr(only_got)[:300], "variant_a": va, "variant_b": vb})
                break
        # a document against its own key-permuted copy
        st = [0]
        pa = _perm(r, case["a"], st)
        c3 = dict(case)
        c3["b"] = pa
        t1, t2 = families.build(c3)
        d = t1.diff(t2)
        if ctx is not None:
            ctx.count("self_comparisons")
        if d.edited_cost() != 0 or not (t1 == t2) or val(t1) != val(t2):
            diags.append({"kind": "permuted-copy-not-equal", "cost": d.edited_cost(), "tree_eq": t1 == t2, "copy": pa})
        if ctx is not None:
            ctx.count("mappings_reordered", moved)
            ctx.seen(case, nontrivial=moved > 0 and not typed_eq_case(case))
    except core.Budget as ex:
        diags.append({"kind": "step-budget", "msg": str(ex)[:200]})
    except Exception as ex:  # noqa
        diags.append(core.exc_diag("exception", ex))
    return diags


def typed_eq_case(case):
    try:
        ca, cb = families.truth(case)
        return ca == cb
    except Exception:
        return False


def _rev(o):
    if isinstance(o, dict) and "$dict" in o:
        return {"$dict": [[k, _rev(v)] for k, v in reversed(o["$dict"])]}
    if isinstance(o, dict):
        return {k: _rev(v) for k, v in reversed(list(o.items()))}
    if isinstance(o, list):
        return [_rev(v) for v in o]
    return o


def classify(case, diag):
    return None


def shrink_candidates(case):
    yield from families.shrink_case(case)


LEVEL_TEXT = ("Metamorphic runtime monitoring: the real engine is run on a pair and on key-permuted variants of it (random permutations "
              "at every depth on either side, the reversal, and in the thorough tier all 24 orders of 4-key mappings); cost and the "
              "multiset of pairings/removals/insertions must not move. A document vs its own permuted copy must be equal at zero "
              "cost; swapping two unequal list elements must cost something.")
LEVEL_NOTE = ("Trusted: val(), the type-strict oracle for the list-swap clause. Generators are biased to matching ties (equal values "
              "under different keys, keys at equal edit distance), where order sensitivity would show.")
TECHNIQUE = "runtime monitor: metamorphic comparison of real scripts under key permutation + list-swap oracle"
