"""C13 — Any input type can be rendered in any output format and mode.

Monitor: CliCapture around the real main() over the complete matrix input type x --format x mode
{diff, -e, -d} x {plain, --color, --html} x {-, -j} x {equal, different}; every failure is attributed
to the formatter call site that raised (frames of the traceback inside the package)."""
import itertools
import os

from gv import core, families, formats, gen, monitors

ID = "C13"
LEVEL = "exploration"
RULE = ("for every generated document pair of one input type all 576 cells {8 output formats} x {diff,-e,-d} x {plain,--color,--html,--html --color} x "
        "{-,-j,a --match-if/--match-unless rule whose evaluation fails on some nodes} x {equal,different} are enumerated; 8 input types (json, json5, yaml, csv, xml, html, plist, pickle); non-trivial = "
        "the documents differ; distinct = distinct (input type, pair, cell)")
ASSUMPTIONS = ["what the output looks like is not judged, only that rendering completes (main() returns 0 or 1, no traceback)"]
MINIMUMS = {"quick": {"cells_with_a_matching_rule": 2000, "cells_run": 5000, "cells_with_status_output_and_real_fds": 2000, "cells_on_a_terminal": 1000},
            "thorough": {"cells_run": 60000, "cells_with_status_output_and_real_fds": 25000, "cells_on_a_terminal": 12000}}
MODES = [[], ["-e"], ["-d"]]
LOOKS = [[], ["--color"], ["--html"], ["--html", "--color"]]
COND = [[], ["-j"], ["rule"]]
# matching rules whose evaluation fails on some nodes (empty strings / lists, non-containers, division by a zero length): the user's
# expression is evaluated on every pair of nodes a comparison looks at, and whatever it raises there must not end the run
RULES = [["--match-unless", "from[0] == '#'"], ["--match-if", "from[0] == to[0]"], ["-u", "1 / len(from) > 1"],
         ["-m", "to['id'] == from['id']"], ["-u", "from.nosuch == 2"], ["-m", "int(from) < int(to)"], ["-u", "from[-1] != to[-1]"]]


def plan(tier, seed):
    q = tier == "quick"
    specs = []
    for t in formats.TYPES:
        for k in range(1 if q else 5):
            specs.append({"stratum": f"input-{t}", "type": t, "pairs": 3 if q else 8, "k": k, "shrink": False,
                          "stop_after_violations": 10 ** 6, "shard_timeout": 3000})
    return specs


def gen_cases(spec, ctx):
    r = ctx.rng
    t = spec["type"]
    for i in range(spec["pairs"]):
        if t in ("json", "json5", "yaml", "pickle") and i % 3 == 2:
            # type-specific features: null, empty containers, and (yaml, pickle) non-string mapping keys
            a, b = formats.gen_rich_pair(r, t)
        else:
            a, b = formats.gen_pair_for_type(r, t)
        if a == b:
            b = formats.gen_pair_for_type(r, t)[1]
        for fmt, mode, look, cond, same in itertools.product(formats.TYPES, MODES, LOOKS, COND, [False, True]):
            yield {"type": t, "a": a, "b": a if same else b, "fmt": fmt, "mode": mode, "look": look, "cond": cond, "same": same}
    if t == "pickle":
        # Python sets reach graphtage only through pickles (and the builder API): a bare multiset that is not a mapping
        e = r.choice([4, 9, "z"])
        a = {"k": {"$set": [1, 2, 3]}, "l": [1, {"$set": ["a", "b"]}]}
        b = {"k": {"$set": [1, 2, e]}, "l": [1, {"$set": ["a", "c"]}]}
        for fmt, mode, look, cond, same in itertools.product(formats.TYPES, MODES, LOOKS, COND, [False, True]):
            yield {"type": t, "a": a, "b": a if same else b, "fmt": fmt, "mode": mode, "look": look, "cond": cond, "same": same,
                   "sets": True}


def _thaw(o):
    if isinstance(o, frozenset):
        return set(o)
    if isinstance(o, dict):
        return {k: _thaw(v) for k, v in o.items()}
    if isinstance(o, list):
        return [_thaw(v) for v in o]
    return o


def check(case, ctx):
    diags = []
    t = case["type"]
    da, db = case["a"], case["b"]
    if t in formats.DATA_TYPES:
        da, db = families.dec(da), families.dec(db)      # documents with non-string keys travel in tagged form
    if case.get("sets"):
        da, db = _thaw(da), _thaw(db)
        if ctx is not None:
            ctx.count("cells_with_python_sets")
    if case.get("sets"):
        # protocol >= 4 writes a set with EMPTY_SET/ADDITEMS, which graphtage loads as a multiset node; protocol 2 (used by
        # formats.write) writes a call to set([...]) instead -- half of the cells each
        import pickle
        proto = 4 if core.case_hash([case["fmt"], case["mode"], case["look"], case["same"]]) % 2 == 0 else pickle.HIGHEST_PROTOCOL
        if ctx is not None:
            ctx.count("cells_with_python_sets_protocol_%d" % proto)
        pa = families.tmpfile(pickle.dumps(da, protocol=proto), "-a" + formats.EXT[t])
        pb = families.tmpfile(pickle.dumps(db, protocol=proto), "-b" + formats.EXT[t])
    else:
        pa = families.tmpfile(formats.write(t, da), "-a" + formats.EXT[t])
        pb = families.tmpfile(formats.write(t, db), "-b" + formats.EXT[t])
    # every other cell runs the way a user's default invocation does: status output enabled and stdout/stderr with real file
    # descriptors (StatusWriter's buffered tqdm.write path); the others with --no-status into in-memory streams
    # ... and a quarter on (pseudo-)terminals, where isatty() is true: colour on by default, tqdm draws its bars
    h = core.case_hash([case["type"], case["fmt"], case["mode"], case["look"], case["cond"], case["same"], repr(case["a"])]) % 4
    status_on, tty = h in (0, 2, 3), h == 3
    cond = case["cond"]
    if cond == ["rule"]:
        cond = RULES[core.case_hash([case["fmt"], case["mode"], case["look"], repr(case["a"])]) % len(RULES)]
        if ctx is not None:
            ctx.count("cells_with_a_matching_rule")
    argv = ([] if status_on else ["--no-status"]) + ["--format", case["fmt"]] + case["mode"] + case["look"] + cond + [pa, pb]
    res = monitors.run_main(argv, real_files=status_on, tty=tty)
    if ctx is not None:
        ctx.count("cells_on_a_terminal" if tty else ("cells_with_status_output_and_real_fds" if status_on else "cells_no_status_in_memory"))
    if ctx is not None:
        ctx.count("cells_run")
        ctx.count(f"in:{t}")
        ctx.count(f"out:{case['fmt']}")
    if res.exc is not None:
        frames = core.repo_frames(res.exc)
        site = _site(frames)
        diags.append({"kind": "rendering-raised", "exc": type(res.exc).__name__, "msg": str(res.exc)[:160], "site": site,
                      "cell": f"{t}->{case['fmt']} {' '.join(case['mode'] + case['look'] + case['cond']) or 'diff'} "
                              f"{'equal' if case['same'] else 'different'}",
                      "frames": [f"{f}:{fn}" for f, fn in frames[-8:]]})
    elif res.rc not in (0, 1):
        diags.append({"kind": "unexpected-exit-status", "rc": res.rc, "stderr": res.err[-200:]})
    elif "Traceback (most recent call last)" in res.err:
        diags.append({"kind": "traceback-on-stderr", "stderr": res.err[-300:]})
    if ctx is not None:
        ctx.seen(case, nontrivial=not case["same"])
    return diags


def _site(frames):
    """The formatter function that built / printed the offending structure: innermost frame whose function is a
    formatter method (print_* / _json_print_*), reading the traceback from the inside out."""
    for f, fn in reversed(frames):
        if fn.startswith("print_") or fn.startswith("_json_print"):
            return f"{f}:{fn}"
    return None


def classify(case, diag):
    if diag["kind"] == "rendering-raised" and diag["exc"] == "ValueError" and "Parent is already assigned" in diag["msg"]:
        if diag.get("site") == "xml.py:_json_print_XMLElement":
            return "reparenting-in-xml-json-adapter"
        if diag.get("site") == "yaml.py:print_ContainerNode":
            return "reparenting-in-yaml-container-fallback"
    return None


def coverage_extra(counters, tier):
    return {"exhaustive": True,
            "exhaustive_subspaces": "all 576 cells (8 formats x 3 modes x 4 looks x {-, -j, matching rule} x equal/different) for every document pair "
                                    "of each of the 8 input types",
            "cells_per_input_type": {k[3:]: v for k, v in counters.items() if k.startswith("in:")}}


LEVEL_TEXT = ("Runtime monitoring of the real main() over the complete output matrix: for each generated document pair of each of the 8 "
              "input types every combination of output format, mode, colour/HTML, condensed layout and equal/different documents is "
              "executed in-process and must return normally; failures are attributed to the raising formatter site.")
LEVEL_NOTE = ("Trusted: the CLI observer. The matrix is enumerated completely per pair; the pairs themselves are sampled (3 per type "
              "quick, 40 thorough). The appearance of the output is not judged.")
TECHNIQUE = "runtime monitor: CLI observer over the fully enumerated input-type x format x mode matrix, failures attributed by call site"
