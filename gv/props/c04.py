"""C04 — Cost bounds only tighten, stay sound, and converge.

Monitor: gv/monitors.py:BoundsTracer wraps bounds()/tighten_bounds() of every Bounded class of the
package (icontract snapshot/ensure on tighten_bounds), so nested edits, matchers and searches are
observed mid-refinement while real diffs are driven in several ways.  The engine's own
"bounds widened" log warnings are monitor events too; non-termination is a logical event budget."""
import copy
import contextlib
import os
import sys

from gv import core, families, gen, monitors

ID = "C04"
LEVEL = "exploration"
NEEDS_DEPS = True
RULE = ("tree pairs (C01's generators: JSON-like x 9 option combinations, BasicBuilder, multiset, XML, CSV, plist, dataclass, PyObj) "
        "x drive mode {diff+edited_cost, tighten-to-end, get_all_edits, stop/read/resume, has_non_zero_cost} x default printer "
        "quiet/non-quiet, plus PossibleEdits / IterativeTighteningSearch / WeightedBipartiteMatcher built directly over real edits; "
        "non-trivial = at least one tighten_bounds() call reported progress on a compound object; distinct = distinct case")
ASSUMPTIONS = ["an interval read while the same object is inside its own tighten_bounds() is transient (counted, not judged)",
               "an edit whose valid flag is False is no longer judged (its bounds are defined to be unbounded)",
               "merely loose (but sound and monotone) bounds are not reported",
               "non-termination = more than 2*10^6 monitored calls in one case, or > 200 engine widening warnings (the loop "
               "repeat_until_tightened cannot leave)"]
REQUIRED_TRUE = ["EditDistance", "EditCollection", "KeyValuePairEdit", "StringEdit", "FixedLengthSequenceEdit", "MultiSetEdit",
                 "WeightedBipartiteMatcher", "XMLElementEdit", "DataClassEdit", "PyObjEdit", "PossibleEdits",
                 "IterativeTighteningSearch"]
MINIMUMS = {"quick": dict({f"{c}.tighten_bounds:True": 5 for c in REQUIRED_TRUE}, **{"cases_judged": 5000}),
            "thorough": dict({f"{c}.tighten_bounds:True": 50 for c in REQUIRED_TRUE}, **{"cases_judged": 100000})}
MODES = ["diff", "tight", "alledits", "stop-resume", "nonzero", "sub-first", "render-then-refine", "sub-first", "render-then-refine"]


def plan(tier, seed):
    q = tier == "quick"
    specs = []
    n_json, per_json = (10, 90) if q else (16, 1500)
    for k in range(n_json):
        specs.append({"stratum": "json-x9-options", "family": "json", "n": per_json, "k": k, "all_options": True, "clean": True})
    if not q:
        for k in range(8):
            specs.append({"stratum": "json-large-documents", "family": "json", "n": 150, "k": k, "clean": True, "profile": "large",
                          "case_timeout": 120})
    for k in range(2 if q else 8):
        # accumulated costs across 2**16 (long lists of long strings, truncated / extended / cut: cheap to diff, large to cost)
        specs.append({"stratum": "json-big-costs", "family": "json", "n": 5 if q else 30, "k": k, "clean": True, "bigcost": True,
                      "case_timeout": 240, "shrink": False})
    for k in range(2 if q else 8):
        specs.append({"stratum": "json-deep-and-wide", "family": "json", "n": 10 if q else 80, "k": k, "clean": True, "deepwide": True,
                      "case_timeout": 240, "shrink": False})
    for k in range(2 if q else 8):
        specs.append({"stratum": "collections-still-expanding-while-sub-edits-finish", "n": 240 if q else 3000, "k": k, "clean": True,
                      "expanding": True})
    per_f = 250 if q else 5000
    for fam in ["basic", "xml", "csv", "plist", "dataclass", "pyobj"]:
        specs.append({"stratum": f"family-{fam}", "family": fam, "n": per_f, "k": 0, "clean": True})
    specs.append({"stratum": "family-mset-nodup", "family": "mset", "n": per_f, "k": 0, "clean": True, "nodup": True})
    specs.append({"stratum": "family-mset-dup", "family": "mset", "n": per_f, "k": 0, "case_timeout": 10})
    for k in range(1 if q else 4):
        specs.append({"stratum": "possible-edits", "n": 1500 if q else 8000, "k": k, "direct": "possible", "clean": True})
        specs.append({"stratum": "matcher-direct", "n": 300 if q else 5000, "k": k, "direct": "matcher", "clean": True})
    return specs


def _no_null(o):
    if isinstance(o, dict):
        return {k: _no_null(v) for k, v in o.items()}
    if isinstance(o, list):
        return [_no_null(v) for v in o]
    return "nil" if o is None else o


def gen_cases(spec, ctx):
    from gv.props import c01
    r = ctx.rng
    if spec.get("expanding"):
        # edit collections (mappings under strategy none, the plist wrapper) with many sub-edits: the collection is still listing
        # its sub-edits while early ones -- nested mappings with several multi-step changes -- finish refining at different times
        def word(n_):
            return "".join(r.choice("abcdefgh") for _ in range(n_))
        for i_case in range(spec["n"]):
            if i_case % 3 == 1:
                # a plist (edit collection around the root edit) whose mappings have unshared keys on both sides with skewed
                # sizes: a matcher step may lower only an upper bound that is still above the collection's own cap
                a, b = gen.dict_pair_for_matching(r)
                big = word(r.randint(12, 30))
                for d_ in (a, b):
                    if d_ and r.random() < 0.7:
                        d_[r.choice(list(d_))] = big + word(2)
                if r.random() < 0.5:
                    b[word(10) + "1"], b[word(10) + "2"] = word(20), word(20)
                a = {k_: ("nil" if v_ is None else v_) for k_, v_ in a.items()}
                b = {k_: ("nil" if v_ is None else v_) for k_, v_ in b.items()}
                case = {"family": "plist", "a": _no_null(a), "b": _no_null(b), "ds": r.choice(gen.DS), "le": r.choice(gen.LE)}
                case["mode"] = r.choice(MODES)
                case["quiet"] = r.random() < 0.5
                case["k"] = r.randint(0, 6) if case["mode"] == "stop-resume" else r.randrange(1 << 20)
                yield case
                continue
            if i_case % 3 == 2:
                # a list whose first and last items change a little while several items between them stay: cheap matches at both
                # ends of the matrix, zero-cost matches in the middle
                def item():
                    return r.choice([r.randint(100, 999), word(4), {"id": r.randint(2, 9)}, [r.randint(2, 9), 2]])
                def nudge(v):
                    if isinstance(v, int):
                        return v + 1
                    if isinstance(v, str):
                        return v[:-1] + "z"
                    if isinstance(v, dict):
                        return {"id": v["id"] + 1}
                    return [v[0] + 1] + v[1:]
                mid = [r.choice([1, 2, 3, "a", "b", word(2)]) for _ in range(r.randint(2, 7))]
                f0, f1 = item(), item()
                a, b = [f0] + mid + [f1], [nudge(f0)] + mid + [nudge(f1)]
                if r.random() < 0.4:
                    a, b = [a], [b]
                if r.random() < 0.3:
                    a, b = {"k": a}, {"k2": b}
                case = {"family": "json", "a": a, "b": b, "ds": r.choice(gen.DS), "le": r.choice(["on", "on", "same"])}
                case["mode"] = r.choice(MODES)
                case["quiet"] = r.random() < 0.5
                case["k"] = r.randint(0, 6) if case["mode"] == "stop-resume" else r.randrange(1 << 20)
                yield case
                continue
            nkeys = r.randint(5, 14)
            a = {}
            for i in range(nkeys):
                x = r.random()
                if x < 0.35:
                    a[f"k{i:02d}"] = {"s": word(r.randint(3, 9)), "t": [r.randint(2, 9) for _ in range(r.randint(1, 4))],
                                      "u": word(r.randint(2, 6)), "n": r.randint(2, 99)}
                elif x < 0.6:
                    a[f"k{i:02d}"] = word(r.randint(2, 10))
                else:
                    a[f"k{i:02d}"] = r.choice([2, 3, [2, 3], "same", {"z": 2}])
            b = copy.deepcopy(a)
            for key in r.sample(list(b), r.randint(1, 3)):
                v = b[key]
                if isinstance(v, dict) and "s" in v:
                    for f in r.sample(["s", "t", "u", "n"], r.randint(2, 3)):
                        if f in ("s", "u"):
                            v[f] = v[f][:-1] + word(2) if r.random() < 0.5 else word(len(v[f]))
                        elif f == "t":
                            v[f] = v[f][1:] + [r.randint(2, 9)]
                        else:
                            v[f] = v[f] + 1
                elif isinstance(v, str):
                    b[key] = v + word(1)
                else:
                    b[key] = "changed"
            fam = r.choice(["json", "json", "plist"])
            case = {"family": fam, "a": a, "b": b, "ds": "none" if fam == "json" else r.choice(gen.DS), "le": r.choice(gen.LE)}
            case["mode"] = r.choice(MODES)
            case["quiet"] = r.random() < 0.5
            case["k"] = r.randint(0, 6) if case["mode"] == "stop-resume" else r.randrange(1 << 20)
            yield case
        return
    if spec.get("direct"):
        for _ in range(spec["n"]):
            prof = gen.CLEAN
            docs = [gen.gdoc(r, prof, 1, 3, 4) for _ in range(r.randint(1, 4))]
            docs2 = [gen.mutate(r, d, prof) if r.random() < 0.6 else gen.gdoc(r, prof, 1, 3, 4) for d in docs]
            if r.random() < 0.3:
                docs2.append(gen.gdoc(r, prof, 1, 3, 4))
            if r.random() < 0.3 and len(docs) > 1:
                docs = docs[:-1]
            if spec["direct"] == "matcher":
                # equal nodes on one side are the multiset-duplicate trigger (judged in the mset strata): keep sides duplicate-free
                docs, docs2 = _dedupe_docs(docs), _dedupe_docs(docs2)
            yield {"direct": spec["direct"], "from": docs, "to": docs2, "ds": r.choice(gen.DS), "le": r.choice(gen.LE),
                   "quiet": r.random() < 0.5}
        return
    for case in c01.gen_cases(spec, ctx):
        case = dict(case)
        case["mode"] = r.choice(MODES)
        case["quiet"] = r.random() < 0.5
        case["k"] = r.randint(0, 6) if case["mode"] == "stop-resume" else r.randrange(1 << 20)
        yield case


def _dedupe_docs(docs):
    from gv.oracle import canon
    seen, out = set(), []
    for d in docs:
        k = canon(d)
        # python-equal leaves (True/1, 1/1.0) hash alike inside graphtage too
        k2 = repr(d) if not isinstance(d, (bool, int, float)) else ("num", float(d))
        if k in seen or k2 in seen:
            continue
        seen.add(k)
        seen.add(k2)
        out.append(d)
    return out


@contextlib.contextmanager
def printer_mode(quiet):
    """Non-quiet: the real progress-bar branches run; their output is sent to /dev/null."""
    import graphtage.printer as gp
    old_q = gp.DEFAULT_PRINTER.quiet
    old_err = sys.stderr
    gp.DEFAULT_PRINTER.quiet = quiet
    dn = None
    if not quiet:
        dn = open(os.devnull, "w")
        sys.stderr = dn
    try:
        yield
    finally:
        gp.DEFAULT_PRINTER.quiet = old_q
        sys.stderr = old_err
        if dn is not None:
            dn.close()


def setup(ctx):
    monitors.TRACER.install()


def drive(ta, tb, mode, k, family="json"):
    from graphtage.tree import CompoundEdit
    import random as _random
    if mode == "sub-first":
        # refinement sequences are not only top-down: sub-edits handed out by edits() may be refined by their holder
        # (a formatter, edited_cost() of a nested node, a client) before the parent is asked again
        rr = _random.Random(k)
        e = ta.edits(tb)
        e.bounds()
        if rr.random() < 0.5:
            monitors.full(e)
        subs = [x for x in monitors.walk_script(e) if x is not e]
        rr.shuffle(subs)
        for x in subs[:rr.randint(1, 6)]:
            if rr.random() < 0.5:
                monitors.tight(x)
            else:
                for _ in range(rr.randint(1, 3)):
                    if not x.tighten_bounds():
                        break
            e.bounds()
        for x in monitors.walk_script(e):
            x.bounds()
        monitors.tight(e)
        for x in monitors.walk_script(e):
            x.bounds()
            x.tighten_bounds()
        return
    if mode == "render-then-refine":
        import io
        import graphtage.printer as gp
        from gv.props.c05 import _formatter
        d = ta.diff(tb)
        try:
            _formatter(family).print(gp.Printer(out_stream=io.StringIO(), ansi_color=False, quiet=True), d)
        except Exception:
            pass        # rendering completeness is C13's
        nodes = list(d.dfs())
        for n in reversed(nodes):          # nested nodes first, as a client inspecting the diff tree bottom-up would
            if hasattr(n, "edited_cost"):
                n.edited_cost()
        for top in (getattr(d, "edit_list", None) or []):
            for x in monitors.walk_script(top):
                x.bounds()
                x.tighten_bounds()
            monitors.tight(top)
        return
    if mode == "diff":
        d = ta.diff(tb)
        d.edited_cost()
    elif mode == "tight":
        monitors.tight(ta.edits(tb))
    elif mode == "alledits":
        for _ in ta.get_all_edits(tb):
            pass
    elif mode == "nonzero":
        e = ta.edits(tb)
        e.has_non_zero_cost()
        monitors.tight(e)
    else:
        e = ta.edits(tb)
        for _ in range(k):
            if not e.tighten_bounds():
                break
        e.bounds()
        e.is_complete()
        if isinstance(e, CompoundEdit):
            it = iter(e.edits())
            next(it, None)
            del it
        e.bounds()
        monitors.tight(e)


def check(case, ctx):
    import graphtage
    import graphtage.json as gj
    T = monitors.TRACER
    T.reset()
    # the call budget scales with the documents: it stands for "does not terminate", not for "is large"
    T.EVENT_BUDGET = max(2_000_000, 3000 * (gen.size(case.get("a", 0)) + 1) * (gen.size(case.get("b", 0)) + 1)) \
        if not case.get("direct") else 2_000_000
    monitors.TRAP.reset()
    before_true = sum(v for k, v in T.events.items() if k.endswith(":True") and not k.startswith("Constant"))
    diags = []
    try:
        with printer_mode(case.get("quiet", True)):
            if case.get("direct"):
                opts = gen.build_options(case["ds"], case["le"])
                fr = [gj.build_tree(d, opts) for d in case["from"]]
                to = [gj.build_tree(d, opts) for d in case["to"]]
                if case["direct"] == "possible":
                    from graphtage.edits import PossibleEdits, Replace
                    a, b = fr[0], to[0]
                    alts = [a.edits(b), Replace(a, b)] + [a.edits(t) for t in to[1:]]
                    pe = PossibleEdits(a, b, iter(alts))
                    monitors.tight(pe)
                    list(pe.edits())
                else:
                    from graphtage.matching import WeightedBipartiteMatcher
                    m = WeightedBipartiteMatcher(fr, to, lambda f, t: f.edits(t))
                    m.bounds()
                    monitors.tight(m)
                    _ = m.matching
                    m.bounds()
            else:
                ta, tb = families.build(case)
                drive(ta, tb, case["mode"], case.get("k", 0), case.get("family", "json"))
    except core.Budget as ex:
        diags.append({"kind": "non-termination-budget", "msg": str(ex)[:300]})
    except Exception as ex:  # noqa  (internal errors are C05's; recorded here so they are not silently lost)
        if ctx is not None:
            ctx.count("exceptions_left_to_C05:" + type(ex).__name__)
    seen = set()
    for v in T.violations:
        key = (v["kind"], v["cls"])
        if key in seen:
            continue
        seen.add(key)
        diags.append(v)
    if monitors.TRAP.count:
        diags.append({"kind": "engine-logged-widening", "cls": "log", "n": monitors.TRAP.count, "first": monitors.TRAP.records[:2]})
    if ctx is not None:
        after_true = sum(v for k, v in T.events.items() if k.endswith(":True") and not k.startswith("Constant"))
        ctx.count("cases_judged")
        ctx.count("mode:" + str(case.get("mode", case.get("direct"))))
        ctx.count("quiet" if case.get("quiet", True) else "non-quiet")
        ctx.seen(case, nontrivial=after_true > before_true)
    return diags


def teardown(ctx):
    for k, v in monitors.TRACER.events.items():
        ctx.count(k, v)


def classify(case, diag):
    if case.get("family") == "mset":
        dup = any(len(x) != len({core.jdump(v) for v in x}) for x in (case["a"], case["b"]))
        if dup and diag.get("cls") in ("MultiSetEdit", "WeightedBipartiteMatcher", "log", None):
            return "multiset-duplicates-collapse"
    return None


def shrink_candidates(case):
    if case.get("direct"):
        for key in ("from", "to"):
            docs = case[key]
            for i in range(len(docs)):
                if len(docs) > 1:
                    c = dict(case)
                    c[key] = docs[:i] + docs[i + 1:]
                    yield c
            for i, d in enumerate(docs):
                for s in gen.shrink_doc(d):
                    c = dict(case)
                    c[key] = docs[:i] + [s] + docs[i + 1:]
                    yield c
        return
    yield from families.shrink_case(case)
    if case.get("mode") != "tight":
        c = dict(case)
        c["mode"] = "tight"
        yield c


def coverage_extra(counters, tier):
    classes = sorted({k.split(".")[0] for k in counters if ".tighten_bounds:" in k})
    return {"bounded_classes_observed": classes,
            "objects_reaching_definitive": {k.split(":")[0]: v for k, v in counters.items() if k.endswith(":reached-definitive")}}


LEVEL_TEXT = ("Runtime monitoring of every bounds()/tighten_bounds() call the engine makes while real diffs run: each exposed interval "
              "must be contained in the previous one for that object, a step that reports progress must have strictly shrunk the "
              "interval, a step that reports none must leave a single value; nested edits, matchers and searches are watched "
              "mid-refinement. Convergence is restated as bounded progress: an event budget and the engine's own widening warnings.")
LEVEL_NOTE = ("Trusted: the tracer (gv/monitors.py) and icontract. Only objects the workloads create are observed; tightness of bounds is "
              "not judged. Unbounded 'eventually' is replaced by a logical step budget (2*10^6 monitored calls per case).")
TECHNIQUE = "runtime monitor: icontract snapshot/ensure + history wrapper on every Bounded class during real diffs"
