"""Workload generators.  Everything takes a random.Random; 'hostile' = biased towards the places
the code branches on (ties, empty containers, equal prefixes/suffixes, type-colliding scalars)."""
import copy
import itertools

DS = ["auto", "match", "none"]
LE = ["on", "off", "same"]
OPTION_GRID = list(itertools.product(DS, LE))


def build_options(ds="auto", le="on", **kw):
    import graphtage
    return graphtage.BuildOptions(
        allow_key_edits=ds != "none",
        auto_match_keys=ds == "auto",
        allow_list_edits=le != "off",
        allow_list_edits_when_same_length=le != "same",
        **kw)


HOSTILE_STRINGS = [
    "", " ", "a", "b", "ab", "ba", "abc", "aaa", "aab", "abab", '"', "\\", '\\"', "a\"b", " -> ", "~~", "++", "~~a~~", "++a++",
    "\n", "a\nb", "\t", "\r\n", "\x00", "\x01\x1f", "\x7f", "̶", "̟", "a̶b̟", "\x1b[31m", "\x1b[0m", "\x1b",
    "\U0001F600", "x\U0001F600y", "é", "日本", " ", "﻿", "1", "1.5", "0", "-1", "True", "False", "None", "null",
    "true", "a\u2028b", "x\x85y", "p\x0bq", "f\x0cg", "s\x1ct", "p\u2029q", "c\rd", "[]", "{}", "[1]", '{"a": 1}', ",", ":", "a,b", "a: b", "#", "- a", "'", "''", "`", "&amp;", "<a>", "]]>",
]
NUMERIC_LOOKING = {"1", "1.5", "0", "-1", "True", "False", "None", "null", "true", "2", "10", "7", "123456", "2.25"}


class Profile:
    """What the scalar alphabet may contain."""

    def __init__(self, name="hostile", strings="hostile", bool_with_01=True, numeric_strings=True,
                 floats=True, none=True, bools=True, alpha="abc", maxd=3, width=5, big_ints=True, empty_strings=True,
                 integral_floats=True):
        self.name = name
        self.strings = strings
        self.bool_with_01 = bool_with_01
        self.numeric_strings = numeric_strings
        self.floats = floats
        self.none = none
        self.bools = bools
        self.alpha = alpha
        self.maxd = maxd
        self.width = width
        self.big_ints = big_ints
        self.empty_strings = empty_strings
        self.integral_floats = integral_floats


HOSTILE = Profile()
# str() injective across types; bools never next to 0/1
CLEAN = Profile("clean", strings="alpha", bool_with_01=False, numeric_strings=False)
LARGE = Profile("large", strings="hostile", maxd=5, width=8)
PLAIN = Profile("plain", strings="alpha", bool_with_01=False, numeric_strings=False, floats=False, big_ints=False)


def gstr(r, prof):
    if prof.strings == "hostile" and r.random() < 0.35:
        s = r.choice(HOSTILE_STRINGS)
        if not prof.numeric_strings and s in NUMERIC_LOOKING:
            s = "n" + s
        return s
    lens = [0, 1, 1, 2, 3, 5, 8, 12] if prof.empty_strings else [1, 1, 2, 3, 5, 8, 12]
    return "".join(r.choice(prof.alpha) for _ in range(r.choice(lens)))


def gint(r, prof):
    lo = 0 if prof.bool_with_01 else 2
    x = r.random()
    if x < 0.6:
        return r.choice([v for v in [0, 1, 2, 3, 7, 10, 11, 12, 100, 101, 123456] if v >= lo])
    if x < 0.75:
        return -r.choice([1, 2, 2, 3, 10, 12]) if prof.bool_with_01 else -r.choice([2, 3, 10, 12])
    if x < 0.9 or not prof.big_ints:
        return r.randint(lo, 1000)
    return r.choice([255, 256, 65535, 65536, 2**31, 2**32, 2**53, 2**63, 2**64, 10**30])


def gscalar(r, prof):
    y = r.random()
    if y < 0.40:
        return gstr(r, prof)
    if y < 0.70:
        return gint(r, prof)
    if y < 0.80 and prof.floats:
        if prof.integral_floats and r.random() < 0.35:
            # numerically equal int/float twins (1 vs 1.0): python-equal nodes whose string forms differ
            return r.choice([0.0, 1.0, 2.0, 3.0, 10.0, -1.0, 7.0, 100.0])
        return r.choice([1.5, 2.25, -0.5, 1e308, 5e-324, 3.14159, 1e-7, 12.5])
    if y < 0.92 and prof.bools:
        return r.choice([True, False])
    if prof.none:
        return None
    return gstr(r, prof)


def gkey(r, prof):
    k = gstr(r, prof)
    return k


def gdoc(r, prof=HOSTILE, depth=0, maxd=None, width=None, containers_only=False):
    maxd = prof.maxd if maxd is None else maxd
    width = prof.width if width is None else width
    x = r.random()
    if not containers_only and (depth >= maxd or x < 0.35):
        return gscalar(r, prof)
    if depth >= maxd:
        return [] if x < 0.5 else {}
    if x < 0.68:
        n = r.choice([0, 1, 2, 3, width, r.randint(0, width)])
        lst = [gdoc(r, prof, depth + 1, maxd, width) for _ in range(n)]
        if lst and r.random() < 0.25:      # duplicates
            lst.append(copy.deepcopy(r.choice(lst)))
        return lst
    n = r.choice([0, 1, 2, 3, width, r.randint(0, width)])
    d = {}
    for _ in range(n):
        d[gkey(r, prof)] = gdoc(r, prof, depth + 1, maxd, width)
    if d and r.random() < 0.3:             # equal values under different keys (matching ties)
        k = r.choice(list(d))
        d[k + r.choice(prof.alpha)] = copy.deepcopy(d[k])
    return d


MUTATION_OPS = ["edit-scalar", "retype-scalar", "rename-key", "insert", "delete", "move", "duplicate", "replace-subtree",
                "permute-keys", "edit-string"]


def _colliders(prof):
    """Values whose Python hashes coincide although the values differ (hash(-1) == hash(-2); 0, False, "" and empty containers
    all hash like 0): what a comparison that trusts hashes cannot tell apart."""
    out = [-1, -2, {}, []]
    if prof.bool_with_01:
        out += [0, False]
    if prof.empty_strings and prof.strings == "hostile":
        out += [""]
    if prof.none:
        out += [None]
    return out


def mutate(r, o, prof=HOSTILE, ops=None, rate=0.35):
    """Derive a related document by a random script of known operations; `ops` (a list) records them."""
    if ops is None:
        ops = []
    if (o is None or isinstance(o, (bool, int, str)) or o == {} or o == []) and r.random() < 0.3:
        cs = _colliders(prof)
        if any(type(c) is type(o) and c == o for c in cs):
            ops.append("hash-collision-twin")
            return copy.deepcopy(r.choice([c for c in cs if not (type(c) is type(o) and c == o)]))
    if r.random() < 0.08:
        ops.append("replace-subtree")
        return gdoc(r, prof, 1)
    if isinstance(o, str):
        if r.random() < rate:
            if o and r.random() < 0.7:
                i = r.randrange(len(o))
                ops.append("edit-string")
                return o[:i] + r.choice(["", "x", "ab", r.choice(prof.alpha)]) + o[i + r.randint(0, 1):]
            ops.append("retype-scalar")
            return gscalar(r, prof)
        return o
    if isinstance(o, list):
        o = [mutate(r, x, prof, ops, rate) if r.random() < 0.4 else copy.deepcopy(x) for x in o]
        if o and r.random() < 0.3:
            del o[r.randrange(len(o))]
            ops.append("delete")
        if r.random() < 0.3:
            o.insert(r.randint(0, len(o)), gdoc(r, prof, 2))
            ops.append("insert")
        if len(o) > 1 and r.random() < 0.2:
            i, j = r.sample(range(len(o)), 2)
            o[i], o[j] = o[j], o[i]
            ops.append("move")
        if o and r.random() < 0.1:
            o.insert(r.randint(0, len(o)), copy.deepcopy(r.choice(o)))
            ops.append("duplicate")
        return o
    if isinstance(o, dict):
        o = {k: (mutate(r, v, prof, ops, rate) if r.random() < 0.4 else copy.deepcopy(v)) for k, v in o.items()}
        if o and r.random() < 0.3:
            del o[r.choice(list(o))]
            ops.append("delete")
        if r.random() < 0.3:
            o[gkey(r, prof)] = gdoc(r, prof, 2)
            ops.append("insert")
        if o and r.random() < 0.3:
            k = r.choice(list(o))
            x = r.random()
            if x < 0.35 and len(k) >= 2:
                i = r.randrange(len(k))       # same-length rename: one character substituted
                nk = k[:i] + r.choice([c for c in prof.alpha + "xyz" if c != k[i]]) + k[i + 1:]
            elif x < 0.8:
                nk = k + r.choice(prof.alpha)
            else:
                nk = gkey(r, prof)
            if nk in o:
                nk = k + "_"
            v = o.pop(k)
            o[nk] = v
            ops.append("rename-key")
        if len(o) > 1 and r.random() < 0.3:
            items = list(o.items())
            r.shuffle(items)
            o = dict(items)
            ops.append("permute-keys")
        return o
    if prof.bool_with_01 and (isinstance(o, bool) or (isinstance(o, int) and o in (0, 1))) and r.random() < 0.15:
        # the python-equal twin across bool / int (true <-> 1, false <-> 0): a different value for every file format
        ops.append("bool-int-twin")
        return int(o) if isinstance(o, bool) else bool(o)
    if prof.integral_floats and isinstance(o, (int, float)) and not isinstance(o, bool) and r.random() < 0.12 \
            and float(o) == o and abs(o) < 2**53:
        # the numerically equal twin of the other numeric type (1 <-> 1.0)
        ops.append("int-float-twin")
        return float(o) if isinstance(o, int) else int(o)
    if r.random() < rate:
        ops.append("edit-scalar" if r.random() < 0.6 else "retype-scalar")
        return gscalar(r, prof)
    return o


def pair(r, prof=HOSTILE, containers_only=True):
    """A pair of documents: related (70%), identical (8%), unrelated (22%)."""
    a = gdoc(r, prof, containers_only=containers_only)
    x = r.random()
    ops = []
    if x < 0.08:
        b = copy.deepcopy(a)
        ops.append("identical")
    elif x < 0.78:
        b = mutate(r, a, prof, ops)
    else:
        b = gdoc(r, prof, containers_only=containers_only)
        ops.append("unrelated")
    return a, b, ops


def dict_pair_for_matching(r):
    """Mappings whose unmatched sides are non-empty on both sides, so the assignment solver is reached."""
    prof = PLAIN
    n = r.randint(2, 5)
    a = {}
    for _ in range(n):
        a[gstr(r, prof) or "k"] = gdoc(r, prof, 2, 3, 3)
    b = {}
    for k, v in a.items():
        nk = k + r.choice("abcxyz") if r.random() < 0.7 else k
        b[nk] = mutate(r, v, prof) if r.random() < 0.6 else copy.deepcopy(v)
    if r.random() < 0.5:
        b[gstr(r, prof) + "q"] = gdoc(r, prof, 2, 3, 3)
    if r.random() < 0.3 and len(a) > 2:
        del a[r.choice(list(a))]
    return a, b


def permute_keys(r, o):
    """Same data, every mapping's insertion order shuffled (all depths)."""
    if isinstance(o, dict):
        items = [(k, permute_keys(r, v)) for k, v in o.items()]
        r.shuffle(items)
        return dict(items)
    if isinstance(o, list):
        return [permute_keys(r, v) for v in o]
    return o


def size(o):
    if isinstance(o, dict):
        return 1 + sum(1 + size(v) for v in o.values())
    if isinstance(o, (list, tuple, set, frozenset)):
        return 1 + sum(size(v) for v in o)
    return 1


def shrink_doc(o):
    """Smaller variants of a document (for delta debugging)."""
    if isinstance(o, list):
        for i in range(len(o)):
            yield o[:i] + o[i + 1:]
        for i, v in enumerate(o):
            if isinstance(v, (list, dict)):
                yield v
            for s in shrink_doc(v):
                yield o[:i] + [s] + o[i + 1:]
    elif isinstance(o, dict):
        keys = list(o)
        for k in keys:
            yield {kk: vv for kk, vv in o.items() if kk != k}
        for k in keys:
            v = o[k]
            if isinstance(v, (list, dict)):
                yield v
            for s in shrink_doc(v):
                d = dict(o)
                d[k] = s
                yield d
        for k in keys:
            if isinstance(k, str) and len(k) > 1:
                d = {(kk if kk != k else k[:-1]): vv for kk, vv in o.items()}
                if len(d) == len(o):
                    yield d
    elif isinstance(o, str):
        if len(o) > 1:
            yield o[:len(o) // 2]
            yield o[1:]
            yield o[:-1]
    elif isinstance(o, int) and not isinstance(o, bool):
        if o not in (0, 2):
            yield 2


def shrink_pair(a, b):
    for s in shrink_doc(a):
        yield s, b
    for s in shrink_doc(b):
        yield a, s
