"""File formats: independent writers (json.dumps, yaml.safe_dump, plistlib, pickle, csv.writer, hand-rolled XML) and
generators of per-type document pairs, shared by the CLI-level properties (C09, C12, C13, C14, C20)."""
import copy
import csv as pycsv
import io
import json
import pickle
import plistlib

from gv import families, gen

TYPES = ["json", "json5", "yaml", "csv", "xml", "html", "plist", "pickle"]
EXT = {"json": ".json", "json5": ".json5", "yaml": ".yaml", "csv": ".csv", "xml": ".xml", "html": ".html", "plist": ".plist",
       "pickle": ".pkl"}
DATA_TYPES = ["json", "json5", "yaml", "plist", "pickle"]   # types whose documents are plain data


def mime_of(t):
    import graphtage
    return graphtage.FILETYPES_BY_TYPENAME[t].default_mimetype


def write(t, doc, dialects=True, variant=None) -> bytes:
    """Serialise `doc` (plain data for DATA_TYPES, table for csv, element spec for xml/html) with an independent writer."""
    # Each format is written in several of its own dialects (chosen deterministically from the document), so that a
    # loader path that only handles "the JSON subset" of JSON5, block-style YAML or XML plists is not the only one driven.
    variant = _variant(doc) if variant is None else variant
    if t == "json":
        # (half of the files carry non-ASCII text raw, as UTF-8, the other half as \u escapes)
        return json.dumps(doc, indent=[None, None, 1][variant % 3], ensure_ascii=variant % 2 == 0).encode("utf-8", "surrogatepass")
    if t == "json5":
        if variant % 2 == 0:
            # (the pinned json5 parser rejects a raw U+2028 / U+2029 inside a string although JSON5 allows it: those stay escaped)
            raw = variant % 4 != 0 and not any(c in repr_text(doc) for c in ("\u2028", "\u2029"))
            return json.dumps(doc, ensure_ascii=not raw).encode("utf-8", "surrogatepass")
        import json5
        # genuine JSON5 syntax: unquoted keys, trailing commas (+ a comment and a single-quoted string when possible)
        text = json5.dumps(doc, indent=[None, 1][variant % 4 // 2], quote_keys=False, trailing_commas=True)
        if variant % 3 == 0:
            text = "// written by the harness\n" + text + "\n/* end */\n"
        return text.encode("utf-8")
    if t == "yaml":
        import yaml
        style = [False, False, True, None][variant % 4]
        # PyYAML's emitter folds U+0085 / U+2028 / U+2029 inside quoted scalars when allowed to write them raw and its own loader
        # does not read them back unchanged; such documents are written with escapes (a defect of the writer, not of graphtage)
        uni = not any(c in repr_text(doc) for c in ("\x85", "\u2028", "\u2029"))
        if variant % 5 == 1 and isinstance(doc, list) and len(doc) >= 2:
            # a stream of several documents ("---" separated) is loaded as the list of those documents
            return yaml.safe_dump_all(doc, default_flow_style=style, allow_unicode=uni, explicit_start=True).encode("utf-8")
        if variant % 7 == 2:
            # every scalar quoted / written as a literal or folded block: non-strings then carry explicit tags (!!int "2")
            import yaml as _y
            text = _y.safe_dump(doc, default_style=['"', "'", "|", ">"][variant % 4], allow_unicode=False)
            try:
                if _y.safe_load(text) == doc:
                    return text.encode("utf-8")
            except Exception:
                pass
        if variant % 3 == 0:
            # equal sub-containers become one shared object, which the dumper writes once with an anchor (&id001) and refers
            # to with aliases (*id001) afterwards; the loader then hands out the same Python object several times
            doc = _share_equal_containers(doc)
        return yaml.safe_dump(doc, default_flow_style=style, allow_unicode=uni).encode("utf-8")
    if t == "plist":
        return plistlib.dumps(doc, fmt=plistlib.FMT_BINARY if variant % 3 == 2 else plistlib.FMT_XML)
    if t == "pickle":
        # (no shared sub-objects here: the third-party pickle decompiler graphtage uses, fickling, turns a second reference to a
        # memoised dict/list into an EMPTY container -- [d, d] decompiles to [{...}, {}] -- so such files do not hold "the same
        # data" for graphtage; that is a defect of the dependency, observed and recorded in DESIGN.md, not judged)
        return pickle.dumps(doc, protocol=2)
    if t == "csv":
        s = io.StringIO()
        # dialect variants that parse to the same table: every field quoted; "\n" instead of "\r\n" between records
        pycsv.writer(s, quoting=pycsv.QUOTE_ALL if variant % 3 == 1 and any(doc) else pycsv.QUOTE_MINIMAL,
                     lineterminator="\n" if variant % 2 else "\r\n").writerows(doc)
        return s.getvalue().encode("utf-8")
    if t in ("xml", "html"):
        if not dialects or variant % 4 == 0:
            return families.xml_text(doc).encode("utf-8")
        return xml_dialect_text(doc, variant).encode("utf-8")
    raise ValueError(t)


def xml_dialect_text(x, variant):
    """The same element tree in other legal spellings: XML declaration and comments, single-quoted attributes, CDATA sections,
    character references, <a></a> vs <a/> (hand-rolled serialiser; what an XML parser reads from it is identical)."""
    def esc(s):
        return s.replace("&", "&amp;").replace("<", "&lt;").replace(">", "&gt;")

    def esc_attr(s, q):
        s = esc(s).replace(q, "&quot;" if q == '"' else "&apos;")
        return s.replace("\n", "&#10;").replace("\r", "&#13;").replace("\t", "&#9;")

    def ser(e):
        t, at, tx, kids = e
        q = "'" if variant % 2 else '"'
        attrs = "".join(f" {k}={q}{esc_attr(v, q)}{q}" for k, v in at.items())
        if not tx and not kids:
            return f"<{t}{attrs}/>" if variant % 3 else f"<{t}{attrs}></{t}>"
        body = ""
        if tx:
            if variant % 4 == 2 and "]]>" not in tx:
                body = f"<![CDATA[{tx}]]>"
            elif variant % 4 == 3:
                body = f"&#x{ord(tx[0]):x};" + esc(tx[1:])
            else:
                body = esc(tx)
        for k in kids:
            body += ser(k) + ("<!-- a comment -->" if variant % 4 == 1 else "")
        return f"<{t}{attrs}>{body}</{t}>"
    head = '<?xml version="1.0" encoding="UTF-8"?>\n<!-- written by the harness -->\n' if variant % 4 == 1 else ""
    return head + ser(x)


def repr_text(o):
    """All string content of a document, concatenated (for character-class tests)."""
    if isinstance(o, str):
        return o
    if isinstance(o, dict):
        return "".join(repr_text(k) + repr_text(v) for k, v in o.items())
    if isinstance(o, (list, tuple, set, frozenset)):
        return "".join(repr_text(v) for v in o)
    return ""


def _share_equal_containers(doc):
    """Same data; sub-containers that are equal (type-strictly, by repr) are one shared object."""
    seen = {}

    def walk(o):
        if isinstance(o, dict):
            o = {k: walk(v) for k, v in o.items()}
        elif isinstance(o, list):
            o = [walk(v) for v in o]
        else:
            return o
        return seen.setdefault(repr(o), o) if o else o
    return walk(doc)


def _variant(doc) -> int:
    import zlib
    return zlib.crc32(repr(doc).encode("utf-8", "replace"))


COMMON = gen.Profile("common", strings="alpha", bool_with_01=True, numeric_strings=False, none=False, big_ints=False, floats=True,
                     empty_strings=False, alpha="abcxyz")


# printable text that looks like syntax of one of the formats (a loader that pre-processes the raw text must not touch it)
PUNCT_STRINGS = ["a, b", "[;,]", "x,}", "(a, b, ]", "k: v", "# no comment", "- x", "'q'", '"dq"', "a\\b", "{}", "[]", "1,", ", ",
                 "{a, b}", "<tag>", "&amp;", "// c", "/* c */", "yes", "~", "a,\n]", "%d", "$x", "a=b", "true,", "null]",
                 # Unicode line boundaries other than "\n" (a line-oriented output path must not treat them as line ends)
                 "a\u2028b", "x\x85y", "p\u2029q",
                 # strings that some loader's implicit typing could take for a number, a boolean, null or a date
                 "1e3", "5E2", "12e-4", "-2e+7", "0x10", "0o17", "0b11", "1_000", "+1", ".5", "1.", "1:30", "on", "off", "No", "Y",
                 "NULL", "Null", "TRUE", "2001-12-14", "2001-12-14T21:59:43Z", ".inf", "-.Inf", ".NaN", "0.", "00", "1,000", "=", "<<"]


def common_data(r, depth=0, root=True):
    """Data expressible in JSON, JSON5, YAML and plist alike: dict/list roots, non-empty alphanumeric string keys, values
    str / 64-bit int / non-integral float / bool, no null, printable text."""
    x = r.random()
    if root:
        x = 0.5 + x / 2
    if depth >= 3 or x < 0.5:
        y = r.random()
        if y < 0.12:
            return r.choice(PUNCT_STRINGS)
        if y < 0.16 and not root:
            return ""           # the empty string as a value / list item (keys stay non-empty)
        if y < 0.4:
            return gen.gstr(r, COMMON)
        if y < 0.7:
            return r.choice([0, 1, 1, 2, 3, 7, 10, 12, 100, 123456, -1, -2, -10, 2**31, 2**40, 2**62])
        if y < 0.85:
            return r.choice([1.5, 2.25, -0.5, 3.14159, 12.5, 1e-07, 1e+20 + 0.5e4])
        return r.choice([True, False])
    if x < 0.75:
        lst = [common_data(r, depth + 1, False) for _ in range(r.randint(0 if not root else 1, 4))]
        if r.random() < 0.25:
            _repeat_a_container(r, lst, lst)
        return lst
    d = {}
    for _ in range(r.randint(0 if not root else 1, 4)):
        d[r.choice(PUNCT_STRINGS) if r.random() < 0.1 else gen.gstr(r, COMMON)] = common_data(r, depth + 1, False)
    if r.random() < 0.25:
        _repeat_a_container(r, d, list(d.values()))
    return d


def _repeat_a_container(r, into, children):
    """The same non-empty list / mapping a second time (an equal copy): what YAML anchors and pickle memos are for."""
    cands = [c for c in children if isinstance(c, (list, dict)) and c]
    if not cands:
        return
    c = copy.deepcopy(r.choice(cands))
    if isinstance(into, list):
        into.insert(r.randint(0, len(into)), c)
    else:
        into[gen.gstr(r, COMMON) + "r"] = c


def mutate_common(r, o):
    b = gen.mutate(r, copy.deepcopy(o), COMMON)
    if not isinstance(b, (dict, list)) or _has_none(b):
        return copy.deepcopy(o)
    return b


def _has_none(o):
    if o is None:
        return True
    if isinstance(o, dict):
        return any(_has_none(v) for v in o.values())
    if isinstance(o, list):
        return any(_has_none(v) for v in o)
    return False


def gen_pair_for_type(r, t, equal=False):
    """(doc_a, doc_b) in the representation `write(t, ...)` expects."""
    if t in DATA_TYPES:
        a = common_data(r)
        b = copy.deepcopy(a) if equal else mutate_common(r, a)
        return a, b
    c = families.gen_case(r, "csv" if t == "csv" else "xml")
    if t == "csv":
        # at least one non-empty row on both sides (tables of only blank rows are a documented corner)
        if not any(c["a"]) or not any(c["b"]):
            c["a"], c["b"] = [["a", "b"], ["c"]], [["a", "x"], ["c"], ["d"]]
    if equal:
        return c["a"], copy.deepcopy(c["a"])
    return c["a"], c["b"]


def rich_data(r, t, depth=0):
    """Type-specific document features beyond the common domain: null, empty containers, and for YAML / pickle also
    non-string mapping keys (int, float, bool), which those formats allow."""
    x = r.random()
    if depth >= 3 or x < 0.4:
        return r.choice(["a", "xy", "", 0, 1, 2, 7, -3, 1.5, True, False, None, "line1\nline2", "é", "1", "true", "null", " padded ",
                         "a\n\nb\n", "long " + "word " * 24 + "end", "tab\there",
                         # numbers beyond what the narrower output formats' own serialisers accept (plistlib: [-2**63, 2**64))
                         2**63, 2**64 - 1, 2**64, -2**63, -2**63 - 1, 10**30, -10**30, 1e308, 5e-324, -0.0, 1e-320])
    if x < 0.65:
        return [rich_data(r, t, depth + 1) for _ in range(r.randint(0, 3))]
    d = {}
    for _ in range(r.randint(0, 4)):
        if t in ("yaml", "pickle") and r.random() < 0.5:
            k = r.choice([1, 2, 10, -1, 2.5, True, False] + ([None] if t == "yaml" else []))
        else:
            k = r.choice(["a", "b", "key", "k2", "", "x y"])
        d[k] = rich_data(r, t, depth + 1)
    return d


def tag(o):
    """JSON-serialisable form of a document that may have non-string keys (inverse: families.dec)."""
    if isinstance(o, dict):
        if all(isinstance(k, str) and not k.startswith("$") for k in o):
            return {k: tag(v) for k, v in o.items()}
        return {"$dict": [[k, tag(v)] for k, v in o.items()]}
    if isinstance(o, list):
        return [tag(v) for v in o]
    return o


def gen_rich_pair(r, t):
    a = rich_data(r, t)
    if not isinstance(a, (dict, list)):
        a = {"k": a} if r.random() < 0.5 else [a]
    b = copy.deepcopy(a)
    # a few edits of known kinds
    def walk(o):
        if isinstance(o, dict):
            for k in list(o):
                if r.random() < 0.3:
                    o[k] = rich_data(r, t, 2)
                else:
                    walk(o[k])
            if r.random() < 0.4:
                nk = r.choice([3, 4.5, "new", "zz", False] if t in ("yaml", "pickle") else ["new", "zz"])
                o[nk] = rich_data(r, t, 2)
            if o and r.random() < 0.3:
                del o[r.choice(list(o))]
        elif isinstance(o, list):
            for i in range(len(o)):
                if r.random() < 0.3:
                    o[i] = rich_data(r, t, 2)
                else:
                    walk(o[i])
            if r.random() < 0.4:
                o.insert(r.randint(0, len(o)), rich_data(r, t, 2))
    walk(b)
    return tag(a), tag(b)
