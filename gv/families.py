"""Tree families: how a generated, JSON-serialisable case becomes a pair of real graphtage trees.

A case is {"family", "a", "b", "ds", "le"}; `build(case)` returns (tree_a, tree_b) built by the
real builders/loaders; `truth(case)` returns the canonical values computed from the generated data
(None where only the loaded tree defines the value: xml/csv/plist/pyobj/dataclass)."""
import atexit
import copy
import random
import os
import shutil
import tempfile

from gv import gen
from gv.oracle import canon, mset

FAMILIES = ["json", "basic", "mset", "xml", "csv", "plist", "dataclass", "pyobj", "file"]
FILE_TYPES = ["json", "json5", "yaml", "pickle"]   # "file": the same kind of data, loaded from disk by the real Filetype loaders

_tmpdir = None


def tmpdir():
    global _tmpdir
    if _tmpdir is None:
        _tmpdir = tempfile.mkdtemp(prefix=f"gv-{os.getpid()}-", dir="/tmp")
        atexit.register(shutil.rmtree, _tmpdir, True)
    return _tmpdir


_counter = [0]


def tmpfile(data: bytes, suffix: str, name: str = None) -> str:
    _counter[0] += 1
    p = os.path.join(tmpdir(), f"{name}{suffix}" if name else f"f{_counter[0] % 64}{suffix}")
    with open(p, "wb") as f:
        f.write(data)
    return p


# ---------------------------------------------------------------------------------------------
# tagged encoding for Python values JSON cannot hold
# ---------------------------------------------------------------------------------------------
def dec(o):
    if isinstance(o, list):
        return [dec(x) for x in o]
    if isinstance(o, dict):
        if "$set" in o:
            return frozenset(dec(x) for x in o["$set"])
        if "$tuple" in o:
            return tuple(dec(x) for x in o["$tuple"])
        if "$bytes" in o:
            return bytes.fromhex(o["$bytes"])
        if "$dict" in o:
            return {dec(k): dec(v) for k, v in o["$dict"]}
        return {k: dec(v) for k, v in o.items()}
    return o


def gen_basic(r, depth=0):
    """Values for BasicBuilder: tuples, sets (of hashable scalars), mixed-type keys."""
    x = r.random()
    if depth >= 3 or x < 0.3:
        return r.choice(["a", "ab", "abc", "b", "", 2, 3, 10, 12, -2, 2.5, True, False, None, "k", "ka"])
    if x < 0.5:
        return [gen_basic(r, depth + 1) for _ in range(r.randint(0, 4))]
    if x < 0.6:
        return {"$tuple": [gen_basic(r, depth + 1) for _ in range(r.randint(0, 3))]}
    if x < 0.75:
        pool = r.sample(["a", "ab", "b", "c", "abc", 2, 3, 10, 2.5, None, "x", "xy"], r.randint(0, 5))
        return {"$set": pool}
    keys = r.sample(["a", "b", "ab", "k", 2, 3, 10, "c", 2.5, "", "kk"], r.randint(0, 4))
    return {"$dict": [[k, gen_basic(r, depth + 1)] for k in keys]}


EMPTIES = [[], {"$tuple": []}, {"$set": []}, {"$dict": []}, ""]


def mut_basic(r, o):
    if r.random() < 0.1:
        return gen_basic(r, 1)
    if o in EMPTIES and r.random() < 0.4:
        # an empty container of another kind (empty list / tuple / set / mapping / string): equal "contents", different documents
        return copy.deepcopy(r.choice([e for e in EMPTIES if e != o]))
    if isinstance(o, list):
        o = [mut_basic(r, x) if r.random() < 0.4 else x for x in o]
        if o and r.random() < 0.3:
            del o[r.randrange(len(o))]
        if r.random() < 0.3:
            o.insert(r.randint(0, len(o)), gen_basic(r, 2))
        return o
    if isinstance(o, dict) and "$tuple" in o:
        m = mut_basic(r, list(o["$tuple"]))
        return {"$tuple": m if isinstance(m, list) else [m]}
    if isinstance(o, dict) and "$set" in o:
        s = list(o["$set"])
        if s and r.random() < 0.5:
            del s[r.randrange(len(s))]
        if r.random() < 0.6:
            c = r.choice(["a", "ab", "b", "c", "abd", 2, 3, 11, 2.5, None, "x", "xz", "q"])
            if c not in s:
                s.append(c)
        return {"$set": s}
    if isinstance(o, dict) and "$dict" in o:
        items = [[k, mut_basic(r, v) if r.random() < 0.4 else v] for k, v in o["$dict"]]
        if items and r.random() < 0.3:
            del items[r.randrange(len(items))]
        if r.random() < 0.3:
            k = r.choice(["a", "b", "z", 4, "ab", "kz"])
            if all(kk != k or type(kk) is not type(k) for kk, _ in items) and all(kk != k for kk, _ in items):
                items.append([k, gen_basic(r, 2)])
        return {"$dict": items}
    if r.random() < 0.3:
        return gen_basic(r, 3)
    return o


# ---------------------------------------------------------------------------------------------
# XML element specs: [tag, {attr: value}, text-or-None, [children]]
# ---------------------------------------------------------------------------------------------
def _xs(r, lo=1):
    return "".join(r.choice("abc") for _ in range(r.randint(lo, 4)))


# character data that a serialiser, a line-oriented output path or an escaping step could treat specially: Unicode line boundaries
# (str.splitlines() splits at U+0085, U+2028, U+2029 as well as at "\n"), markup characters, quotes, non-ASCII, inner blanks
XML_TEXTS = ["a\u2028b", "x\x85y", "p\u2029q", "a&b", "a<b>c", "q\"r's", "\u00e9", "a b", "\u65e5\u672c", "a&amp;b", "]]>x", "x\U0001F600y"]


def _xt(r, lo=1):
    """Text of an element or value of an attribute."""
    if r.random() < 0.12:
        return r.choice(XML_TEXTS)
    return _xs(r, lo)


def gen_xml(r, d=0):
    kids = [gen_xml(r, d + 1) for _ in range(r.randint(0, 3))] if d < 3 else []
    return [_xs(r), {_xs(r): _xt(r, 0) for _ in range(r.randint(0, 2))}, _xt(r) if r.random() < 0.5 else None, kids]


def mut_xml(r, x):
    t, at, tx, kids = x
    if r.random() < 0.2:
        t = _xs(r)
    if r.random() < 0.3:
        at = dict(at)
        at[_xs(r)] = _xt(r, 0)
    if at and r.random() < 0.2:
        at = dict(at)
        at.pop(r.choice(list(at)))
    if at and r.random() < 0.2:
        at = dict(at)
        k = r.choice(list(at))
        at[k + "x"] = at.pop(k)
    if r.random() < 0.3:
        tx = _xt(r) if r.random() < 0.7 else None
    kids = [mut_xml(r, k) if r.random() < 0.4 else k for k in kids]
    if kids and r.random() < 0.3:
        kids = kids[:]
        del kids[r.randrange(len(kids))]
    if r.random() < 0.3:
        kids = kids[:]
        kids.insert(r.randint(0, len(kids)), gen_xml(r, 3))
    return [t, at, tx, kids]


def xml_element(x):
    import xml.etree.ElementTree as ET
    t, at, tx, kids = x
    e = ET.Element(t, dict(at))
    e.text = tx
    for k in kids:
        e.append(xml_element(k))
    return e


def xml_text(x):
    import xml.etree.ElementTree as ET
    return ET.tostring(xml_element(x), encoding="unicode")


def xml_truth(x):
    t, at, tx, kids = x
    return ("X", ("s", t), ("D", mset(("K", ("s", k), ("s", v)) for k, v in at.items())),
            ("s", tx) if tx else None, ("L", tuple(xml_truth(k) for k in kids)))


# ---------------------------------------------------------------------------------------------
def gen_case(r, family, prof=None, ds=None, le=None):
    ds = ds or r.choice(gen.DS)
    le = le or r.choice(gen.LE)
    prof = prof or gen.HOSTILE
    if family == "json":
        a, b, ops = gen.pair(r, prof)
        return {"family": family, "a": a, "b": b, "ds": ds, "le": le, "ops": ops}
    if family == "basic":
        a = gen_basic(r)
        b = mut_basic(r, copy.deepcopy(a)) if r.random() < 0.75 else gen_basic(r)
        return {"family": family, "a": a, "b": b, "ds": ds, "le": le}
    if family == "mset":
        pool = r.choice([["a", "ab", "b", "abc"], [2, 3, 10, 11], ["a", 2, "b", 3, None, 2.5]])
        dup = r.random() < 0.5
        def ms():
            n = r.randint(0, 5)
            xs = [r.choice(pool) for _ in range(n)] if dup else r.sample(pool, min(n, len(pool)))
            if r.random() < 0.3:
                xs.append([r.choice(pool) for _ in range(r.randint(0, 2))])
            return xs
        return {"family": family, "a": ms(), "b": ms(), "ds": ds, "le": le}
    if family == "xml":
        a = gen_xml(r)
        b = mut_xml(r, a) if r.random() < 0.8 else gen_xml(r)
        return {"family": family, "a": a, "b": b, "ds": ds, "le": le}
    if family == "csv":
        def cell():
            return r.choice(["", "a", "ab", "abc", "b", "1", "2", "10", "x y", "a,b", 'q"q', "l1\nl2", " a ", "é",
                             "a\u2028b", "x\x85y", "p\x0bq", "f\x0cg", "s\x1ct", "u\x1ev", "p\u2029q"])
        def table():
            w = r.randint(0, 4)
            return [[cell() for _ in range(r.choice([w, w, r.randint(0, 4)]))] for _ in range(r.randint(0, 5))]
        a = table()
        if r.random() < 0.75:
            b = [list(row) for row in a]
            for _ in range(r.randint(0, 3)):
                x = r.random()
                if b and x < 0.3:
                    del b[r.randrange(len(b))]
                elif x < 0.5:
                    b.insert(r.randint(0, len(b)), [cell() for _ in range(r.randint(0, 4))])
                elif b:
                    row = b[r.randrange(len(b))]
                    if row and r.random() < 0.6:
                        row[r.randrange(len(row))] = cell()
                    elif row and r.random() < 0.5:
                        del row[r.randrange(len(row))]
                    else:
                        row.insert(r.randint(0, len(row)), cell())
        else:
            b = table()
        return {"family": family, "a": a, "b": b, "ds": ds, "le": le}
    if family == "file":
        # data files in the dialects formats.write() produces (JSON5 syntax, YAML flow style / anchors and aliases / multi-document
        # streams, pickles with shared objects), each side in its own type
        from gv import formats
        a = formats.common_data(r)
        x = r.random()
        b = copy.deepcopy(a) if x < 0.06 else (formats.mutate_common(r, a) if x < 0.85 else formats.common_data(r))
        if r.random() < 0.2:
            # null, which all four of these formats can express (a YAML stream may even hold an empty document: "--- \n---")
            seed = r.randrange(1 << 30)
            a, b = _with_nulls(random.Random(seed), a), _with_nulls(random.Random(seed), b)
        # (a pickle is loaded into a Python-AST wrapper, so it is only ever compared with another pickle)
        ta = r.choice(FILE_TYPES)
        tb = ta if ta == "pickle" else r.choice([t for t in FILE_TYPES if t != "pickle"])
        c = {"family": family, "a": a, "b": b, "ds": ds, "le": le, "ta": ta, "tb": tb}
        if r.random() < 0.15 and ta != "pickle":
            # streams of several YAML documents, some of them empty (null), changed somewhere behind the empty one
            n = r.randint(3, 5)
            docs = [formats.common_data(r, 2, False) for _ in range(n)]
            for i in r.sample(range(n), r.randint(1, 2)):
                docs[i] = None
            other = copy.deepcopy(docs)
            j = r.randrange(n)
            other[j] = formats.common_data(r, 2, False) if other[j] is None or r.random() < 0.5 else formats.mutate_common(r, other[j]) \
                if isinstance(other[j], (dict, list)) else "changed"
            c.update(a=docs, b=other, ta="yaml", tb="yaml", va=1, vb=1 + 5 * r.randrange(4))   # variant % 5 == 1: multi-document
        return c
    if family in ("plist", "dataclass", "pyobj"):
        p = gen.Profile("plist", strings="alpha", bool_with_01=False, numeric_strings=False, none=False, big_ints=False,
                        floats=True)
        a, b, ops = gen.pair(r, p)
        return {"family": family, "a": a, "b": b, "ds": ds, "le": le}
    raise ValueError(family)


def _with_nulls(r, o, depth=0):
    """Same document with a few list items / mapping values replaced by, or lists extended with, null."""
    if isinstance(o, list):
        out = [_with_nulls(r, v, depth + 1) if r.random() < 0.8 else None for v in o]
        if r.random() < 0.4:
            out.insert(r.randint(0, min(len(out), 2)), None)
        return out
    if isinstance(o, dict):
        return {k: (_with_nulls(r, v, depth + 1) if r.random() < 0.85 else None) for k, v in o.items()}
    return o


class _Obj:
    """Plain attribute bag handed to pydiff.build_tree."""
    def __init__(self, d):
        for k, v in d.items():
            setattr(self, k, v)


class _Obj2(_Obj):
    pass


def _to_pyobj(o, depth=0):
    if isinstance(o, dict):
        attrs = {("f_" + "".join(ch if ch.isalnum() else "_" for ch in str(k)) or "f_"): _to_pyobj(v, depth + 1)
                 for k, v in o.items()}
        cls = _Obj if len(o) % 2 == 0 else _Obj2
        return cls(attrs)
    if isinstance(o, list):
        return [_to_pyobj(v, depth + 1) for v in o]
    return o


_dc = {}


def _dataclass_types():
    if not _dc:
        import graphtage
        from graphtage.dataclasses import DataClassNode

        class GVPair(DataClassNode):
            left: graphtage.TreeNode
            right: graphtage.TreeNode

        class GVTriple(GVPair):
            extra: graphtage.TreeNode

        _dc["pair"], _dc["triple"] = GVPair, GVTriple
    return _dc["pair"], _dc["triple"]


def build(case):
    import graphtage
    import graphtage.json as gj
    fam = case["family"]
    opts = gen.build_options(case.get("ds", "auto"), case.get("le", "on"))
    a, b = case["a"], case["b"]
    if fam == "json":
        return gj.build_tree(a, opts), gj.build_tree(b, opts)
    if fam == "file":
        import graphtage
        from gv import formats
        def load(doc, t, variant):
            return graphtage.FILETYPES_BY_TYPENAME[t].build_tree(tmpfile(formats.write(t, doc, variant=variant), formats.EXT[t]), opts)
        return load(a, case.get("ta", "json"), case.get("va")), load(b, case.get("tb", "json"), case.get("vb"))
    if fam == "basic":
        from graphtage.builder import BasicBuilder
        return BasicBuilder(opts).build_tree(dec(a)), BasicBuilder(opts).build_tree(dec(b))
    if fam == "mset":
        def ms(xs):
            return graphtage.MultiSetNode([gj.build_tree(x, opts) for x in xs])
        return ms(a), ms(b)
    if fam == "xml":
        import graphtage.xml as gx
        return gx.build_tree(xml_element(a), opts), gx.build_tree(xml_element(b), opts)
    if fam == "csv":
        import csv as pycsv
        import io
        import graphtage.csv as gc
        def load(rows):
            s = io.StringIO()
            pycsv.writer(s).writerows(rows)
            return gc.build_tree(tmpfile(s.getvalue().encode("utf-8"), ".csv"), opts)
        return load(a), load(b)
    if fam == "plist":
        import plistlib
        import graphtage.plist as gp
        def load(o):
            if not isinstance(o, (dict, list)):
                o = [o]
            return gp.build_tree(tmpfile(plistlib.dumps(o), ".plist"), opts)
        return load(a), load(b)
    if fam == "dataclass":
        pair, triple = _dataclass_types()
        def mk(o):
            if isinstance(o, list) and len(o) >= 3:
                return triple(gj.build_tree(o[0], opts), gj.build_tree(o[1], opts), gj.build_tree(o[2:], opts))
            if isinstance(o, list) and len(o) == 2:
                return pair(gj.build_tree(o[0], opts), gj.build_tree(o[1], opts))
            return pair(gj.build_tree(o, opts), gj.build_tree("x", opts))
        return mk(a), mk(b)
    if fam == "pyobj":
        import graphtage.pydiff as pd
        return pd.build_tree(_to_pyobj(a), opts), pd.build_tree(_to_pyobj(b), opts)
    raise ValueError(fam)


def truth(case):
    fam = case["family"]
    if fam in ("json", "file"):
        return canon(case["a"]), canon(case["b"])
    if fam == "basic":
        return canon(dec(case["a"])), canon(dec(case["b"]))
    if fam == "mset":
        return ("M", mset(canon(x) for x in case["a"])), ("M", mset(canon(x) for x in case["b"]))
    if fam == "xml":
        return xml_truth(case["a"]), xml_truth(case["b"])
    return None, None


def shrink_case(case):
    fam = case["family"]
    a, b = case["a"], case["b"]
    if fam == "file":
        if (case.get("ta"), case.get("tb")) != ("json", "json"):
            c = dict(case)
            c["ta"] = c["tb"] = "json"
            yield c
        for t in ("ta", "tb"):
            if case.get(t) not in ("json", "pickle") and "pickle" not in (case.get("ta"), case.get("tb")):
                c = dict(case)
                c[t] = "json"
                yield c
        for x, y in gen.shrink_pair(a, b):
            if isinstance(x, (dict, list)) and isinstance(y, (dict, list)) and x and y:
                c = dict(case)
                c["a"], c["b"] = x, y
                yield c
    if fam in ("json", "plist", "dataclass", "pyobj", "mset", "csv"):
        for x, y in gen.shrink_pair(a, b):
            c = dict(case)
            c["a"], c["b"] = x, y
            yield c
    elif fam == "xml":
        def shr(x):
            t, at, tx, kids = x
            for i in range(len(kids)):
                yield [t, at, tx, kids[:i] + kids[i + 1:]]
            for i, k in enumerate(kids):
                yield k
                for s in shr(k):
                    yield [t, at, tx, kids[:i] + [s] + kids[i + 1:]]
            for k in list(at):
                yield [t, {kk: v for kk, v in at.items() if kk != k}, tx, kids]
            if tx is not None:
                yield [t, at, None, kids]
        for s in shr(a):
            c = dict(case)
            c["a"] = s
            yield c
        for s in shr(b):
            c = dict(case)
            c["b"] = s
            yield c
    for ds in ("auto",):
        if case.get("ds") != ds and case.get("ds") == "match":
            c = dict(case)
            c["ds"] = ds
            yield c
    if case.get("le") == "same":
        c = dict(case)
        c["le"] = "off"
        yield c
