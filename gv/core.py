"""Shared run-time machinery: shard context, watchdogs, shrinking, case hashing."""
import collections
import contextlib
import hashlib
import json
import os
import random
import signal
import sys
import time
import traceback

VERIF = os.path.dirname(os.path.dirname(os.path.abspath(__file__)))


class CaseTimeout(BaseException):
    """Raised by the per-case wall-clock watchdog.  BaseException so that `except Exception`
    in the code under test cannot swallow it.  A firing is INCONCLUSIVE, never a violation."""


class Budget(Exception):
    """Raised by logical step budgets inside monitors (deterministic, hence a verdict)."""


@contextlib.contextmanager
def watchdog(seconds: float):
    def handler(signum, frame):
        raise CaseTimeout()
    old = signal.signal(signal.SIGALRM, handler)
    signal.setitimer(signal.ITIMER_REAL, seconds)
    try:
        yield
    finally:
        signal.setitimer(signal.ITIMER_REAL, 0)
        signal.signal(signal.SIGALRM, old)


def jdump(o) -> str:
    return json.dumps(o, sort_keys=True, ensure_ascii=True, default=_default)


def _default(o):
    if isinstance(o, (set, frozenset)):
        return {"$set": sorted(map(jdump, o))}
    if isinstance(o, tuple):
        return {"$tuple": list(o)}
    if isinstance(o, bytes):
        return {"$bytes": o.hex()}
    return {"$repr": repr(o)}


def case_hash(case) -> int:
    return int.from_bytes(hashlib.blake2b(jdump(case).encode(), digest_size=8).digest(), "big")


class Ctx:
    """Per-shard accumulator.  Everything in it is measured, nothing is a constant."""

    def __init__(self, prop: str, spec: dict):
        self.prop = prop
        self.spec = spec
        self.tier = spec.get("tier", "quick")
        self.seed = spec.get("seed", 0)
        self.rng = random.Random(f"{self.seed}/{prop}/{spec.get('stratum', '')}/{spec.get('shard', 0)}")
        self.evaluations = 0
        self.counters = collections.Counter()
        self.hashes = set()       # hashes of distinct non-trivial cases
        self.samples = []
        self.failures = []
        self.failure_kinds = collections.Counter()
        self.inconclusive = []
        self.unprocessed = collections.Counter()
        self.extra = {}
        self.shrink_allowance = float(spec.get("shrink_allowance_s", 60))
        self._sample_slots = spec.get("samples", 3)
        self._sample_rng = random.Random(f"samples/{self.seed}/{spec.get('shard', 0)}")
        self._sample_n = 0

    # -- recording -------------------------------------------------------------------------
    def count(self, key, n=1):
        self.counters[key] += n

    def seen(self, case, nontrivial: bool, sample=None):
        self.evaluations += 1
        if nontrivial:
            h = case_hash(case)
            if h not in self.hashes:
                self.hashes.add(h)
                # reservoir sampling with its own RNG (must not disturb the generator's stream)
                self._sample_n += 1
                item = sample if sample is not None else case
                if len(self.samples) < self._sample_slots:
                    self.samples.append(item)
                else:
                    j = self._sample_rng.randrange(self._sample_n)
                    if j < self._sample_slots:
                        self.samples[j] = item

    def result(self) -> dict:
        return {
            "prop": self.prop, "spec": self.spec, "evaluations": self.evaluations,
            "counters": dict(self.counters), "hashes": sorted(self.hashes),
            "samples": self.samples, "failures": self.failures,
            "failure_kinds": dict(self.failure_kinds), "unprocessed": dict(self.unprocessed),
            "inconclusive": self.inconclusive, "extra": self.extra,
        }


MAX_DETAILED_PER_KIND = 6
SHRINK_BUDGET = 120


def shrink(mod, case, diag, ctx, budget=SHRINK_BUDGET):
    """Greedy delta debugging: accept a candidate when the monitor still fires with the same
    `kind`.  Bounded by re-executions so a slow case cannot stall the shard."""
    cands = getattr(mod, "shrink_candidates", None)
    if cands is None:
        return case, diag
    kind = diag.get("kind")
    progress = True
    runs = 0
    # shrinking only makes replays readable; it gets a small wall-clock allowance per failure and per
    # shard so that a broken tree on which candidates hang cannot stall the run
    deadline = time.time() + min(8.0, max(0.0, ctx.shrink_allowance))
    t_start = time.time()
    while progress and runs < budget and time.time() < deadline:
        progress = False
        for cand in cands(case):
            if runs >= budget or time.time() >= deadline:
                break
            runs += 1
            try:
                with watchdog(max(0.2, min(2.0, deadline - time.time()))):
                    ds = mod.check(cand, None)
            except CaseTimeout:
                continue
            except Exception:
                continue
            same = [d for d in ds if d.get("kind") == kind]
            if same:
                case, diag = cand, same[0]
                progress = True
                break
    ctx.shrink_allowance -= time.time() - t_start
    return case, diag


def run_shard(mod, spec: dict) -> dict:
    """Generic loop: generate → execute under monitors → (on alarm) shrink, classify."""
    ctx = Ctx(mod.ID, spec)
    if hasattr(mod, "setup"):
        mod.setup(ctx)
    timeout = spec.get("case_timeout", 30)
    clean = spec.get("clean", False)
    stop_after = spec.get("stop_after_violations", 25)
    for case in mod.gen_cases(spec, ctx):
        if sum(1 for f in ctx.failures if f["finding"] is None) >= stop_after or len(ctx.inconclusive) >= spec.get("stop_after_inconclusive", 5):
            ctx.count("shard_stopped_early_after_violations")
            break
        try:
            with watchdog(timeout):
                diags = mod.check(case, ctx)
        except CaseTimeout:
            ctx.inconclusive.append({"case": case, "reason": f"case watchdog {timeout}s"})
            continue
        if not diags:
            continue
        for diag in diags:
            kind = diag.get("kind", "?")
            ctx.failure_kinds[kind] += 1
            finding = None if clean else mod.classify(case, diag)
            key = f"{kind}|{finding}"
            ctx.unprocessed[key] += 1
            if ctx.unprocessed[key] > (MAX_DETAILED_PER_KIND if finding is not None else 25):
                continue  # counted (failure_kinds / unprocessed) but not shrunk or stored
            small, sdiag = case, diag
            if spec.get("shrink", True):
                small, sdiag = shrink(mod, case, diag, ctx)
                f2 = None if clean else mod.classify(small, sdiag)
                if f2 != finding:
                    # keep the original: shrinking must not launder an unlisted failure into a listed one
                    small, sdiag = case, diag
            ctx.failures.append({"case": small, "diag": sdiag, "finding": finding,
                                 "stratum": spec.get("stratum"), "clean": clean,
                                 "shard": spec.get("shard", 0)})
    if hasattr(mod, "teardown"):
        mod.teardown(ctx)
    return ctx.result()


def exc_diag(kind: str, exc: BaseException, **extra) -> dict:
    tb = traceback.extract_tb(exc.__traceback__)
    frames = [f"{os.path.basename(f.filename)}:{f.name}:{f.lineno}" for f in tb][-12:]
    d = {"kind": kind, "exc": type(exc).__name__, "msg": str(exc)[:300], "frames": frames}
    d.update(extra)
    return d


def repo_frames(exc: BaseException):
    """(file basename, function) pairs of frames inside the graphtage package, innermost last."""
    out = []
    for f in traceback.extract_tb(exc.__traceback__):
        if os.sep + "graphtage" + os.sep in f.filename:
            out.append((os.path.basename(f.filename), f.name))
    return out
