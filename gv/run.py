"""./check <PROP> [--tier quick|thorough] [--seed N] [--replay file] [--jobs N]

Plans the property's workload, runs the shards as independent subprocesses against /repo's
current working tree, merges what the monitors observed, applies the three-valued verdict and
rewrites evidence/<PROP>.json.

exit 0: held on everything explored (each re-observed listed finding printed as KNOWN-FINDING)
exit 1: `VIOLATION property=<id> replay=<path>` for an unlisted failure
exit 2: `INCONCLUSIVE property=<id> reason=...` (watchdog, dead worker, deciding monitor not reached)
"""
import argparse
import collections
import importlib
import json
import os
import shutil
import subprocess
import sys
import time

VERIF = os.path.dirname(os.path.dirname(os.path.abspath(__file__)))
sys.path.insert(0, VERIF)

from gv import core  # noqa: E402

PY = "/venv/bin/python" if os.path.exists("/venv/bin/python") else sys.executable


def load_findings():
    p = os.path.join(VERIF, "known_findings.json")
    if not os.path.exists(p):
        return {}
    data = json.load(open(p))
    return {(f["property"], f["key"]): f for f in data.get("findings", [])}


def run_shards(prop, specs, jobs, workdir, repo):
    os.makedirs(workdir, exist_ok=True)
    pending = list(enumerate(specs))
    running = []
    results = [None] * len(specs)
    problems = []
    env_base = dict(os.environ)
    env_base.update({"VP_REPO": repo, "PYTHONPATH": VERIF, "OPENBLAS_NUM_THREADS": "1",
                     "OMP_NUM_THREADS": "1", "MKL_NUM_THREADS": "1", "PYTHONDONTWRITEBYTECODE": "1",
                     "TERM": "dumb"})
    while pending or running:
        while pending and len(running) < jobs:
            i, spec = pending.pop(0)
            sp = os.path.join(workdir, f"spec{i}.json")
            op = os.path.join(workdir, f"out{i}.json")
            with open(sp, "w") as f:
                json.dump(spec, f)
            env = dict(env_base)
            env["PYTHONHASHSEED"] = str(spec.get("hashseed", 0))
            log = open(os.path.join(workdir, f"log{i}.txt"), "wb")
            p = subprocess.Popen([PY, "-m", "gv.shard", prop, sp, op], cwd=VERIF, env=env,
                                 stdin=subprocess.DEVNULL, stdout=log, stderr=log)
            running.append((i, spec, p, time.time(), op, log))
        time.sleep(0.05)
        still = []
        for (i, spec, p, t0, op, log) in running:
            rc = p.poll()
            # wall-clock backstop only (verdicts come from logical budgets); generous, because a loaded machine slows every shard
            limit = max(spec.get("shard_timeout", 0), 3600 if spec.get("tier") == "quick" else 14400)
            if rc is None:
                if time.time() - t0 > limit:
                    p.kill()
                    p.wait()
                    log.close()
                    problems.append(f"shard {i} ({spec.get('stratum')}) exceeded {limit}s wall clock")
                else:
                    still.append((i, spec, p, t0, op, log))
                continue
            log.close()
            if rc != 0 or not os.path.exists(op):
                tail = open(os.path.join(workdir, f"log{i}.txt"), "rb").read()[-1500:].decode("utf8", "replace")
                problems.append(f"shard {i} ({spec.get('stratum')}) died rc={rc}: {tail}")
            else:
                results[i] = json.load(open(op))
        running = still
    return [r for r in results if r is not None], problems


def main():
    ap = argparse.ArgumentParser()
    ap.add_argument("prop")
    ap.add_argument("--tier", default=os.environ.get("VERIF_TIER", "quick"), choices=["quick", "thorough"])
    ap.add_argument("--seed", type=int, default=int(os.environ.get("VERIF_SEED", "0") or 0))
    ap.add_argument("--replay")
    ap.add_argument("--jobs", type=int, default=int(os.environ.get("VERIF_JOBS", "16")))
    ap.add_argument("--repo", default=os.environ.get("VP_REPO", "/repo"))
    ap.add_argument("--keep-work", action="store_true")
    args = ap.parse_args()
    prop = args.prop.upper()
    os.environ["VP_REPO"] = args.repo
    mod = importlib.import_module(f"gv.props.{prop.lower()}")

    if args.replay:
        return replay(mod, prop, args)

    t0 = time.time()
    specs = mod.plan(args.tier, args.seed)
    for i, s in enumerate(specs):
        s.setdefault("tier", args.tier)
        s.setdefault("seed", args.seed)
        s.setdefault("shard", i)
    workdir = os.path.join(VERIF, ".work", f"{prop}-{args.tier}-{args.seed}-{os.getpid()}")
    if getattr(mod, "NEEDS_DEPS", False):
        from gv import boot
        boot.ensure_deps()
    try:
        results, problems = run_shards(prop, specs, args.jobs, workdir, args.repo)
    finally:
        if not args.keep_work:
            shutil.rmtree(workdir, ignore_errors=True)

    findings = load_findings()
    counters = collections.Counter()
    per_stratum = collections.defaultdict(lambda: collections.Counter())
    hashes = set()
    samples = []
    evaluations = 0
    failures = []
    failure_kinds = collections.Counter()
    unprocessed = collections.Counter()
    inconclusive = list(problems)
    for r in results:
        evaluations += r["evaluations"]
        counters.update(r["counters"])
        st = r["spec"].get("stratum", "main")
        per_stratum[st]["evaluations"] += r["evaluations"]
        per_stratum[st]["nontrivial"] += len(r["hashes"])
        per_stratum[st]["failures"] += sum(r["failure_kinds"].values())
        hashes.update(r["hashes"])
        for s in r["samples"]:
            if len(samples) < 6:
                samples.append(s)
        failures.extend(r["failures"])
        failure_kinds.update(r["failure_kinds"])
        unprocessed.update(r["unprocessed"])
        for inc in r["inconclusive"]:
            inconclusive.append(f"{st}: {inc.get('reason')} case={core.jdump(inc.get('case'))[:200]}")

    # cross-shard verdicts (e.g. the same batch executed under different hash seeds)
    if hasattr(mod, "finalize"):
        extra_failures, extra_counts = mod.finalize(results)
        failures.extend(extra_failures)
        counters.update(extra_counts)
        for f in extra_failures:
            failure_kinds[f["diag"].get("kind", "?")] += 1

    # minimum-observation rule: the deciding monitors must actually have been reached
    for key, minimum in getattr(mod, "MINIMUMS", {}).get(args.tier, {}).items():
        if counters.get(key, 0) < minimum:
            inconclusive.append(f"monitor counter {key}={counters.get(key, 0)} below minimum {minimum}")

    violations = []
    known_seen = collections.OrderedDict()
    for f in failures:
        k = f.get("finding")
        ent = findings.get((prop, k)) if k else None
        if ent is not None and ent.get("status") == "open" and not f.get("clean"):
            known_seen.setdefault(k, []).append(f)
        else:
            violations.append(f)
    # unprocessed failures carry (kind|finding) keys; an unlisted one is still a violation
    for key, n in unprocessed.items():
        kind, _, k = key.partition("|")
        if k == "None":
            continue
        ent = findings.get((prop, k))
        if ent is not None and ent.get("status") == "open":
            known_seen.setdefault(k, [])

    replay_path = None
    if violations:
        rd = os.path.join(VERIF, "replays", prop)
        os.makedirs(rd, exist_ok=True)
        v = violations[0]
        replay_path = os.path.join(rd, f"{core.case_hash(v['case']):016x}.json")
        with open(replay_path, "w") as fh:
            fh.write(core.jdump({"property": prop, "case": v["case"], "diag": v["diag"],
                                 "stratum": v.get("stratum"), "seed": args.seed, "tier": args.tier}))
        for extra in violations[1:20]:
            with open(os.path.join(rd, f"{core.case_hash(extra['case']):016x}.json"), "w") as fh:
                fh.write(core.jdump({"property": prop, "case": extra["case"], "diag": extra["diag"],
                                     "stratum": extra.get("stratum"), "seed": args.seed, "tier": args.tier}))

    wall = time.time() - t0
    if not samples:
        samples = [r["samples"] for r in results if r["samples"]][:1]
    coverage = {
        "evaluations": evaluations,
        "distinct_nontrivial": len(hashes),
        "rule": mod.RULE,
        "samples": samples[:6],
        "monitor_counters": dict(sorted(counters.items())),
        "strata": {k: dict(v) for k, v in sorted(per_stratum.items())},
        "failure_kinds_observed": dict(failure_kinds),
        "known_findings_reobserved": {k: len(v) for k, v in known_seen.items()},
        "inconclusive": inconclusive[:20],
        "unlisted_failures": [{"stratum": v.get("stratum"), "diag": v["diag"], "case": v["case"]} for v in violations[:5]],
        "shards": len(specs),
    }
    if hasattr(mod, "coverage_extra"):
        coverage.update(mod.coverage_extra(counters, args.tier))
    ev = {
        "property_id": prop, "tier": args.tier, "seed": args.seed,
        "level": getattr(mod, "LEVEL", "exploration"),
        "coverage": coverage,
        "assumptions": getattr(mod, "ASSUMPTIONS", []),
        "wall_s": round(wall, 2),
        "violations": len(violations),
        "verdict": "violated" if violations else ("inconclusive" if inconclusive else "held"),
    }
    # evidence/ only ever describes runs against /repo itself; dev-time runs against a scratch copy (--repo) go elsewhere
    scratch = os.path.realpath(args.repo) != os.path.realpath("/repo")
    evdir = os.path.join(VERIF, ".work", "evidence-scratch") if scratch else os.path.join(VERIF, "evidence")
    os.makedirs(evdir, exist_ok=True)
    with open(os.path.join(evdir, f"{prop}.json"), "w") as fh:
        json.dump(ev, fh, indent=1, sort_keys=True, default=core._default)
        fh.write("\n")

    print(f"{prop} tier={args.tier} seed={args.seed}: {evaluations} executions judged, "
          f"{len(hashes)} distinct non-trivial, {sum(failure_kinds.values())} monitor alarms, "
          f"{wall:.1f}s")
    for k, fs in known_seen.items():
        ent = findings[(prop, k)]
        print(f"KNOWN-FINDING: property={prop} {k}: {ent.get('mechanism', '')[:200]}")
    if violations:
        v = violations[0]
        print(f"  first unlisted failure: kind={v['diag'].get('kind')} stratum={v.get('stratum')} "
              f"diag={core.jdump(v['diag'])[:400]}")
        print(f"VIOLATION property={prop} replay={replay_path}")
        return 1
    if inconclusive:
        print(f"INCONCLUSIVE property={prop} reason={inconclusive[0][:400]}")
        return 2
    return 0


def replay(mod, prop, args):
    data = json.load(open(args.replay))
    from gv import boot
    if getattr(mod, "NEEDS_DEPS", False):
        boot.ensure_deps()
    spec = {"tier": data.get("tier", "quick"), "seed": data.get("seed", 0), "stratum": data.get("stratum"),
            "shard": 0, "replay": True}
    boot.boot(real_colorama=False)
    ctx = core.Ctx(prop, spec)
    if hasattr(mod, "setup"):
        mod.setup(ctx)
    diags = mod.check(data["case"], ctx)
    findings = load_findings()
    if not diags:
        print(f"{prop}: replayed case held (no monitor fired)")
        return 0
    rc = 0
    for d in diags:
        k = mod.classify(data["case"], d)
        ent = findings.get((prop, k)) if k else None
        if ent is not None and ent.get("status") == "open":
            print(f"KNOWN-FINDING: property={prop} {k}: {core.jdump(d)[:300]}")
        else:
            print(f"  monitor fired: {core.jdump(d)[:600]}")
            print(f"VIOLATION property={prop} replay={args.replay}")
            rc = 1
    return rc


if __name__ == "__main__":
    sys.exit(main())
