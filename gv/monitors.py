"""Monitors attached from the harness (no source hooks): script walkers, the bounds tracer, the CLI
capture.  All are plain wrappers / patches on classes and functions of the imported package."""
import collections
import functools
import io
import logging
import sys


# ---------------------------------------------------------------------------------------------
# driving helpers (same loops as TreeNode.diff / get_all_edit_contexts)
# ---------------------------------------------------------------------------------------------
def full(e, limit=2_000_000):
    """Refine exactly like TreeNode.diff does: until complete."""
    n = 0
    while e.valid and not e.is_complete() and e.tighten_bounds():
        n += 1
        if n > limit:
            from gv.core import Budget
            raise Budget("refinement did not complete within the step budget")
    return e


def tight(e, limit=2_000_000):
    """Refine until tighten_bounds() reports no progress; return the final Range."""
    n = 0
    while e.tighten_bounds():
        n += 1
        if n > limit:
            from gv.core import Budget
            raise Budget("tighten_bounds() kept reporting progress beyond the step budget")
    return e.bounds()


def sub_edits(e):
    """The sub-edits a compound edit lists (StringEdit's character script is *not* part of the tree script)."""
    from graphtage.tree import CompoundEdit
    import graphtage
    if isinstance(e, graphtage.StringEdit):
        return None
    if isinstance(e, CompoundEdit):
        return list(e.edits())
    return None


def walk_script(e):
    """Pre-order over the whole script."""
    stack = [e]
    while stack:
        x = stack.pop()
        yield x
        subs = sub_edits(x)
        if subs:
            stack.extend(reversed(subs))


class KeepStringIO(io.StringIO):
    """main() closes the stream it printed to; keep the value."""
    def close(self):
        self.final = self.getvalue()
        super().close()

    def value(self):
        return getattr(self, "final", None) if self.closed else self.getvalue()


# ---------------------------------------------------------------------------------------------
# the engine's own guard as a monitor event
# ---------------------------------------------------------------------------------------------
class WarningTrap(logging.Handler):
    """graphtage logs a warning whenever it *itself* sees bounds widen (bounds.repeat_until_tightened,
    FixedLengthSequenceEdit.tighten_bounds, TreeNode.diff).  Each record is a monitor event; and because
    repeat_until_tightened never leaves its loop while the bounds keep widening, a run of such records is
    turned into a deterministic step-budget verdict instead of a wall-clock timeout."""
    LOOP_LIMIT = 200

    def __init__(self):
        super().__init__(level=logging.WARNING)
        self.records = []
        self.count = 0

    def reset(self):
        self.records = []
        self.count = 0

    def emit(self, record):
        msg = record.getMessage()
        if "bounds" not in msg:
            return
        self.count += 1
        if len(self.records) < 5:
            self.records.append(f"{record.name}: {msg[:200]}")
        if self.count > self.LOOP_LIMIT:
            from gv.core import Budget
            self.count = 0
            raise Budget(f"engine logged more than {self.LOOP_LIMIT} bounds-widening warnings in one case "
                         f"(repeat_until_tightened cannot leave its loop): {msg[:160]}")


TRAP = WarningTrap()


def install_warning_trap():
    lg = logging.getLogger("graphtage")
    lg.setLevel(logging.WARNING)
    lg.propagate = False
    if TRAP not in lg.handlers:
        lg.addHandler(TRAP)
    return TRAP


# ---------------------------------------------------------------------------------------------
# BoundsTracer — C04's monitor, also attached while other properties' workloads run
# ---------------------------------------------------------------------------------------------
class StepBroken(Exception):
    pass


class BoundsTracer:
    """Wraps bounds() and tighten_bounds() on every class of the package that defines them.

    Rules (each learnt from a false alarm of the prototype on the unchanged tree):
      1. per-object state lives on the instance __dict__ (ids are reused: MultiSetEdit.bounds() creates and
         drops Remove/Insert objects on every call);
      2. only the OUTERMOST bounds() call on an object is an exposure (EditCollection/EditDistance call
         super().bounds() as a helper);
      3. a read made while the same object is inside its own tighten_bounds() is transient: counted, not judged.
    tighten_bounds() carries an icontract snapshot/ensure pair (interval before the call in OLD.b); the
    postcondition records and returns True so that one alarm does not abort the execution it observes."""

    EVENT_BUDGET = 2_000_000

    def __init__(self):
        self.events = collections.Counter()
        self.violations = []
        self.inmon = False
        self.installed = False
        self.case_events = 0
        self.enabled = True

    # -- per case --------------------------------------------------------------------------
    def reset(self):
        self.violations = []
        self.case_events = 0

    def _tick(self):
        self.case_events += 1
        if self.case_events > self.EVENT_BUDGET:
            self.case_events = 0
            from gv.core import Budget
            raise Budget(f"more than {self.EVENT_BUDGET} monitored bounds()/tighten_bounds() calls in one case")

    def _flag(self, kind, obj, **kw):
        if len(self.violations) < 50:
            kw.update(kind=kind, cls=type(obj).__name__)
            self.violations.append(kw)

    @staticmethod
    def _valid(o):
        try:
            return o.__dict__.get("_valid", True)
        except Exception:
            return True

    def _quiet_bounds(self, o):
        prev = self.inmon
        self.inmon = True
        try:
            return o.bounds()
        finally:
            self.inmon = prev

    def _observe(self, o, b, how):
        """History rule: every exposed interval is contained in the previous one."""
        if not self._valid(o):
            self.events["skipped:invalidated"] += 1
            return
        d = o.__dict__
        last = d.get("_gv_last")
        lb, ub = b.lower_bound, b.upper_bound
        if last is not None and (lb < last[0] or ub > last[1]):
            self._flag("interval-widened", o, prev=[str(last[0]), str(last[1])], now=[str(lb), str(ub)], via=how)
        d["_gv_last"] = (lb, ub)

    # -- wrappers ---------------------------------------------------------------------------
    def _wrap_bounds(self, cls):
        orig = cls.__dict__["bounds"]
        tracer = self

        @functools.wraps(orig)
        def bounds(self, *a, **k):
            d = self.__dict__
            outer = d.get("_gv_bdepth", 0) == 0
            d["_gv_bdepth"] = d.get("_gv_bdepth", 0) + 1
            try:
                r = orig(self, *a, **k)
            finally:
                d["_gv_bdepth"] -= 1
            if tracer.enabled and not tracer.inmon and outer:
                tracer._tick()
                if d.get("_gv_depth", 0) > 0:
                    tracer.events[f"{cls.__name__}.bounds:transient"] += 1
                else:
                    tracer.events[f"{cls.__name__}.bounds"] += 1
                    tracer._observe(self, r, "bounds")
            return r
        cls.bounds = bounds

    def _wrap_tighten(self, cls):
        import icontract
        orig = cls.__dict__["tighten_bounds"]
        tracer = self

        @functools.wraps(orig)
        def inner(self, *a, **k):
            d = self.__dict__
            d["_gv_depth"] = d.get("_gv_depth", 0) + 1
            try:
                return orig(self, *a, **k)
            finally:
                d["_gv_depth"] -= 1

        def bounds_before(self):
            if not tracer.enabled:
                return None
            return tracer._quiet_bounds(self)

        def step_ok(self, result, OLD):
            if not tracer.enabled or OLD.b is None:
                return True
            tracer._tick()
            before = OLD.b
            after = tracer._quiet_bounds(self)
            tracer.events[f"{cls.__name__}.tighten_bounds:{bool(result)}"] += 1
            if not tracer._valid(self):
                tracer.events["skipped:invalidated"] += 1
                return True
            if self.__dict__.get("_gv_depth", 0) == 0:
                tracer._observe(self, before, "before-tighten")
                tracer._observe(self, after, "after-tighten")
            if after.lower_bound < before.lower_bound or after.upper_bound > before.upper_bound:
                tracer._flag("step-widened", self, before=str(before), after=str(after), returned=bool(result))
            elif result and not (after.lower_bound > before.lower_bound or after.upper_bound < before.upper_bound):
                tracer._flag("progress-reported-without-shrinking", self, before=str(before), after=str(after))
            elif not result and not after.definitive():
                tracer._flag("no-progress-on-non-definitive", self, before=str(before), after=str(after))
            elif not result and (after.lower_bound != before.lower_bound or after.upper_bound != before.upper_bound):
                # the step shrank the interval to a single value but returned False: allowed by the property's wording
                # ("reports no progress only once the interval is a single value"); counted, not judged
                tracer.events[f"unjudged:{cls.__name__}:returned-False-after-shrinking-to-a-single-value"] += 1
            if after.definitive():
                tracer.events[f"{cls.__name__}:reached-definitive"] += 1
            return True

        cls.tighten_bounds = icontract.snapshot(bounds_before, name="b")(
            icontract.ensure(step_ok, error=StepBroken)(inner))

    def classes(self):
        import graphtage
        import graphtage.bounds as gb, graphtage.edits as ge, graphtage.matching as gm, graphtage.search as gs
        import graphtage.sequences as gseq, graphtage.multiset as gms, graphtage.levenshtein as gl
        import graphtage.xml as gx, graphtage.dataclasses as gdc, graphtage.pydiff as gpd, graphtage.graphtage as gg
        seen = []
        for mod in (gb, ge, gm, gs, gseq, gms, gl, gx, gg, gdc, gpd):
            for k, v in vars(mod).items():
                if isinstance(v, type) and str(v.__module__).startswith("graphtage") and v.__name__ not in ("Range", "Bounded") \
                        and ("tighten_bounds" in v.__dict__ or "bounds" in v.__dict__) and v not in seen:
                    seen.append(v)
        return seen

    def install(self):
        if self.installed:
            return
        self.wrapped = []
        for c in self.classes():
            if "bounds" in c.__dict__ and not getattr(c.__dict__["bounds"], "__isabstractmethod__", False):
                self._wrap_bounds(c)
            if "tighten_bounds" in c.__dict__ and not getattr(c.__dict__["tighten_bounds"], "__isabstractmethod__", False):
                self._wrap_tighten(c)
            self.wrapped.append(c.__name__)
        self.installed = True


TRACER = BoundsTracer()


# ---------------------------------------------------------------------------------------------
# CLI observer
# ---------------------------------------------------------------------------------------------
class CliResult:
    __slots__ = ("rc", "out", "err", "exc")

    def __init__(self, rc, out, err, exc):
        self.rc, self.out, self.err, self.exc = rc, out, err, exc


def _open_tty():
    """A pseudo-terminal: (text stream on the slave side, master fd, drain thread, list of byte chunks read from the master)."""
    import fcntl
    import os
    import struct
    import termios
    import threading
    m, sl = os.openpty()
    attrs = termios.tcgetattr(sl)
    attrs[1] &= ~termios.OPOST            # no "\n" -> "\r\n" translation: what is written is what is read
    termios.tcsetattr(sl, termios.TCSANOW, attrs)
    fcntl.ioctl(sl, termios.TIOCSWINSZ, struct.pack("HHHH", 24, 80, 0, 0))
    chunks = []

    def drain():
        while True:
            try:
                b = os.read(m, 65536)
            except OSError:               # EIO once the slave side is closed
                break
            if not b:
                break
            chunks.append(b)
    th = threading.Thread(target=drain, daemon=True)
    th.start()
    return os.fdopen(sl, "w", encoding="utf-8", errors="surrogatepass", newline=""), m, th, chunks


class _Stdin:
    """sys.stdin stand-in: main() reads the bytes of a '-' argument from sys.stdin.buffer."""
    def __init__(self, data: bytes):
        import io
        self.buffer = io.BytesIO(data)

    def read(self, *a):
        return self.buffer.read(*a).decode("utf-8", "replace")

    def isatty(self):
        return False

    def fileno(self):
        raise OSError("no file descriptor")


def run_main(args, real_files: bool = False, tty: bool = False, stdin: bytes = None):
    """graphtage.__main__.main(argv) in-process, observed at the boundary a user sees: stdout text, stderr text,
    return value / exit status, escaped exception.  Every call behaves like a fresh process as far as logging
    goes (basicConfig is effective only once per process, so the root handlers are cleared first)."""
    import graphtage.__main__ as gm
    from gv.core import CaseTimeout
    paths = None
    ttys = None
    if tty:
        # the way a user at a terminal runs it: stdout and stderr are terminals (isatty() is true, so colour is on by default and
        # tqdm draws its bars), status output on
        out, mo, tho, co = _open_tty()
        err, me, the, ce = _open_tty()
        ttys = ((out, mo, tho, co), (err, me, the, ce))
    elif real_files:
        # streams with a real file descriptor: StatusWriter only buffers and goes through tqdm.write() when its stream *is*
        # the process's stdout/stderr (this is the path every default command-line invocation takes)
        import os
        import tempfile
        fo, po = tempfile.mkstemp(prefix="gv-out-", dir="/tmp")
        fe, pe = tempfile.mkstemp(prefix="gv-err-", dir="/tmp")
        out, err = os.fdopen(fo, "w", encoding="utf-8", errors="surrogatepass"), os.fdopen(fe, "w", encoding="utf-8", errors="replace")
        paths = (po, pe)
    else:
        out, err = KeepStringIO(), KeepStringIO()
    old_out, old_err, old_in = sys.stdout, sys.stderr, sys.stdin
    if stdin is not None:
        sys.stdin = _Stdin(stdin)
    root = logging.getLogger()
    saved = root.handlers[:]
    root.handlers = []
    sys.stdout, sys.stderr = out, err
    rc, exc = None, None
    try:
        try:
            rc = gm.main(["graphtage"] + list(args))
        except SystemExit as ex:
            rc = ex.code if isinstance(ex.code, int) else (0 if ex.code is None else 1)
        except CaseTimeout:
            raise
        except BaseException as ex:  # noqa
            exc = ex
    finally:
        sys.stdout, sys.stderr, sys.stdin = old_out, old_err, old_in
        for h in root.handlers:
            try:
                h.close()
            except Exception:
                pass
        root.handlers = saved
    if ttys is not None:
        import os
        texts = []
        for f, m, th, chunks in ttys:
            try:
                if not f.closed:
                    f.close()
            except Exception:
                pass
            th.join(10)
            try:
                os.close(m)
            except OSError:
                pass
            texts.append(b"".join(chunks).decode("utf-8", "surrogatepass" if f is out else "replace"))
        return CliResult(rc, texts[0], texts[1], exc)
    if paths is not None:
        import os
        texts = []
        for f, p in ((out, paths[0]), (err, paths[1])):
            try:
                if not f.closed:
                    f.close()
            except Exception:
                pass
            # newline="": what was written is what is read ("\r" and "\r\n" inside the output are data, not line ends)
            with open(p, encoding="utf-8", errors="surrogatepass" if f is out else "replace", newline="") as fh:
                texts.append(fh.read())
            os.unlink(p)
        return CliResult(rc, texts[0], texts[1], exc)
    return CliResult(rc, out.value() or "", err.value() or "", exc)


MARK_CHARS = ("̶", "̟")


def has_change_marks(text: str) -> bool:
    """Colour rendering: a red/green background or a strike/under-plus combining mark."""
    import re
    if any(m in text for m in MARK_CHARS):
        return True
    for m in re.finditer(r"\x1b\[([0-9;]*)m", text):
        for code in m.group(1).split(";"):
            if code in ("41", "42", "101", "102"):
                return True
    return False
