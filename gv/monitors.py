"""Monitors attached from the harness (no source hooks): script walkers, the bounds tracer, the CLI
capture.  All are plain wrappers / patches on classes and functions of the imported package."""
import collections
import functools
import io
import logging
import sys


# ---------------------------------------------------------------------------------------------
# driving helpers (same loops as TreeNode.diff / get_all_edit_contexts)
# ---------------------------------------------------------------------------------------------
def full(e, limit=2_000_000):
    """Refine exactly like TreeNode.diff does: until complete."""
    n = 0
    while e.valid and not e.is_complete() and e.tighten_bounds():
        n += 1
        if n > limit:
            from gv.core import Budget
            raise Budget("refinement did not complete within the step budget")
    return e


def tight(e, limit=2_000_000):
    """Refine until tighten_bounds() reports no progress; return the final Range."""
    n = 0
    while e.tighten_bounds():
        n += 1
        if n > limit:
            from gv.core import Budget
            raise Budget("tighten_bounds() kept reporting progress beyond the step budget")
    return e.bounds()


def sub_edits(e):
    """The sub-edits a compound edit lists (StringEdit's character script is *not* part of the tree script)."""
    from graphtage.tree import CompoundEdit
    import graphtage
    if isinstance(e, graphtage.StringEdit):
        return None
    if isinstance(e, CompoundEdit):
        return list(e.edits())
    return None


def walk_script(e):
    """Pre-order over the whole script."""
    stack = [e]
    while stack:
        x = stack.pop()
        yield x
        subs = sub_edits(x)
        if subs:
            stack.extend(reversed(subs))


class KeepStringIO(io.StringIO):
    """main() closes the stream it printed to; keep the value."""
    def close(self):
        self.final = self.getvalue()
        super().close()

    def value(self):
        return getattr(self, "final", None) if self.closed else self.getvalue()


# ---------------------------------------------------------------------------------------------
# the engine's own guard as a monitor event
# ---------------------------------------------------------------------------------------------
class WarningTrap(logging.Handler):
    """graphtage logs a warning whenever it *itself* sees bounds widen (bounds.repeat_until_tightened,
    FixedLengthSequenceEdit.tighten_bounds, TreeNode.diff).  Each record is a monitor event; and because
    repeat_until_tightened never leaves its loop while the bounds keep widening, a run of such records is
    turned into a deterministic step-budget verdict instead of a wall-clock timeout."""
    LOOP_LIMIT = 200

    def __init__(self):
        super().__init__(level=logging.WARNING)
        self.records = []
        self.count = 0

    def reset(self):
        self.records = []
        self.count = 0

    def emit(self, record):
        msg = record.getMessage()
        if "bounds" not in msg:
            return
        self.count += 1
        if len(self.records) < 5:
            self.records.append(f"{record.name}: {msg[:200]}")
        if self.count > self.LOOP_LIMIT:
            from gv.core import Budget
            self.count = 0
            raise Budget(f"engine logged more than {self.LOOP_LIMIT} bounds-widening warnings in one case "
                         f"(repeat_until_tightened cannot leave its loop): {msg[:160]}")


TRAP = WarningTrap()


def install_warning_trap():
    lg = logging.getLogger("graphtage")
    lg.setLevel(logging.WARNING)
    lg.propagate = False
    if TRAP not in lg.handlers:
        lg.addHandler(TRAP)
    return TRAP
