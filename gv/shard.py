"""Worker entry point: python -m gv.shard <PROP> <spec.json> <out.json>"""
import faulthandler
import importlib
import json
import os
import resource
import sys
import time


def main():
    prop, spec_path, out_path = sys.argv[1:4]
    spec = json.load(open(spec_path))
    faulthandler.enable()
    lim = int(spec.get("rlimit_as_gib", 6)) * (1 << 30)
    try:
        resource.setrlimit(resource.RLIMIT_AS, (lim, lim))
    except (ValueError, OSError):
        pass
    sys.setrecursionlimit(int(spec.get("recursionlimit", 3000)))
    from gv import boot, core
    mod = importlib.import_module(f"gv.props.{prop.lower()}")
    if getattr(mod, "NEEDS_DEPS", False):
        boot.ensure_deps()
    boot.boot(real_colorama=spec.get("real_colorama", False), quiet=spec.get("quiet", True))
    t0 = time.time()
    if hasattr(mod, "run_shard"):
        res = mod.run_shard(spec)
    else:
        res = core.run_shard(mod, spec)
    res["wall_s"] = time.time() - t0
    tmp = out_path + ".tmp"
    with open(tmp, "w") as f:
        f.write(core.jdump(res))
    os.replace(tmp, out_path)


if __name__ == "__main__":
    main()
