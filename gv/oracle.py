"""Reference oracles.  Small, independent of the code under test (they read nodes only through
the public node API: children(), .object, .key/.value, class)."""
import collections
import itertools
from fractions import Fraction

ABSENT = ("<absent>",)


# ---------------------------------------------------------------------------------------------
# canonical, type-strict values of plain Python data
# ---------------------------------------------------------------------------------------------
def canon(x):
    """Type-strict canonical form: bool != int != str, None distinct, dicts unordered, lists
    ordered, sets as multisets.  int vs float with the same value get different tags (pairs
    relying on that distinction are never generated where the verdict depends on it)."""
    if x is None:
        return ("n",)
    if isinstance(x, bool):
        return ("b", x)
    if isinstance(x, int):
        return ("i", x)
    if isinstance(x, float):
        return ("f", repr(x))
    if isinstance(x, str):
        return ("s", x)
    if isinstance(x, bytes):
        return ("y", x)
    if isinstance(x, (list, tuple)):
        return ("L", tuple(canon(v) for v in x))
    if isinstance(x, dict):
        return ("D", mset(("K", canon(k), canon(v)) for k, v in x.items()))
    if isinstance(x, (set, frozenset)):
        return ("M", mset(canon(v) for v in x))
    if isinstance(x, collections.Counter):
        return ("M", mset(itertools.chain.from_iterable([canon(k)] * n for k, n in x.items())))
    raise TypeError(f"canon: {type(x)}")


def mset(items):
    c = collections.Counter(items)
    return tuple(sorted(c.items(), key=repr))


def fold_number_twins(v):
    """Canonical value with integral floats folded onto ints (1.0 -> 1).  Graphtage, like JSON, has one notion of
    'number': a script that keeps `1` where the second document says `1.0` describes the same data.  Used by oracles
    that must not take a side on int-vs-float (the pairs are still generated)."""
    if isinstance(v, tuple):
        if len(v) == 2 and v[0] == "f":
            try:
                f = float(v[1])
                if f == int(f) and abs(f) < 2**53:
                    return ("i", int(f))
            except (ValueError, OverflowError):
                pass
            return v
        return tuple(fold_number_twins(x) for x in v)
    return v


def typed_eq(a, b) -> bool:
    return canon(a) == canon(b)


def has_int_float_twin(a, b) -> bool:
    """True when a and b contain an int and a float with the same numeric value (UNDETERMINED)."""
    def nums(x, out):
        if isinstance(x, bool) or x is None or isinstance(x, (str, bytes)):
            return
        if isinstance(x, (int, float)):
            out.add((type(x).__name__, x))
        elif isinstance(x, dict):
            for k, v in x.items():
                nums(k, out), nums(v, out)
        else:
            for v in x:
                nums(v, out)
    na, nb = set(), set()
    nums(a, na), nums(b, nb)
    allv = na | nb
    ints = {v for t, v in allv if t == "int"}
    floats = {v for t, v in allv if t == "float"}
    return any(f in ints for f in floats)


# ---------------------------------------------------------------------------------------------
# node -> canonical value
# ---------------------------------------------------------------------------------------------
def val(n):
    import graphtage
    from graphtage import xml as gxml
    if isinstance(n, gxml.XMLElement):
        return ("X", val(n.tag), val(n.attrib), None if n.text is None else val(n.text),
                ("L", tuple(val(c) for c in n._children)))
    if isinstance(n, graphtage.KeyValuePairNode):
        return ("K", val(n.key), val(n.value))
    from graphtage import plist as gplist, dataclasses as gdc, pydiff as gpd
    if isinstance(n, gplist.PLISTNode):
        return ("P", val(n.root))
    if isinstance(n, gpd.PyObj):
        return ("O", val(n.class_name), val(n.attrs))
    if isinstance(n, gdc.DataClassNode):
        return ("C", tuple((slot, val(v)) for slot, v in n.items()))
    if isinstance(n, graphtage.MappingNode):
        return ("D", mset(val(c) for c in n))
    if isinstance(n, graphtage.MultiSetNode):
        return ("M", mset(val(c) for c in n))
    if isinstance(n, graphtage.ListNode):
        return ("L", tuple(val(c) for c in n))
    if type(n).__name__ == "CyclicReference":
        return ("CYCLE-PLACEHOLDER",)
    if isinstance(n, graphtage.LeafNode):
        return canon(n.object)
    ch = n.children()
    return ("?" + type(n).__name__, tuple(val(c) for c in ch))


def container_kind(node):
    import graphtage
    if isinstance(node, graphtage.MappingNode):
        return "D"
    if isinstance(node, graphtage.MultiSetNode):
        return "M"
    if isinstance(node, graphtage.ListNode):
        return "L"
    return None


def make_container(kind, items):
    if kind == "L":
        return ("L", tuple(items))
    return (kind, mset(items))


def recon(e):
    """What a fully refined edit says about the first and the second document.  Built only from
    what the script lists, so a dropped, duplicated or re-ordered element changes A or B."""
    import graphtage
    from graphtage import edits as ge, xml as gxml
    from graphtage.tree import CompoundEdit
    if isinstance(e, gxml.XMLElementEdit):
        ta, tb = recon(e.tag_edit)
        aa, ab = recon(e.attrib_edit)
        ca, cb = recon(e.child_edit)
        if e.text_edit is None:
            xa = xb = None
        else:
            xa, xb = recon(e.text_edit)
            xa = None if xa is ABSENT else xa
            xb = None if xb is ABSENT else xb
        return ("X", ta, aa, xa, ca), ("X", tb, ab, xb, cb)
    if isinstance(e, (ge.Match, ge.Replace)):
        return val(e.from_node), val(e.to_node)
    if isinstance(e, ge.Remove):
        return val(e.from_node), ABSENT
    if isinstance(e, ge.Insert):
        return ABSENT, val(e.from_node)
    if isinstance(e, graphtage.KeyValuePairEdit):
        ka, kb = recon(e.key_edit)
        va, vb = recon(e.value_edit)
        return ("K", ka, va), ("K", kb, vb)
    if isinstance(e, graphtage.StringEdit):
        subs = [recon(s) for s in e.edit_distance.edits()]
        return (("s", "".join(a[1] for a, b in subs if a is not ABSENT)),
                ("s", "".join(b[1] for a, b in subs if b is not ABSENT)))
    from graphtage import plist as gplist, dataclasses as gdc, pydiff as gpd
    if isinstance(e, gpd.PyObjEdit):
        na, nb = recon(e.name_edit)
        aa, ab = recon(e.attrs_edit)
        return ("O", na, aa), ("O", nb, ab)
    if isinstance(e, gdc.DataClassEdit):
        slots = [slot for slot, _ in e.from_node.items()]
        subs = [recon(s) for s in e.edits()]
        if len(subs) != len(slots):
            raise TypeError(f"recon: DataClassEdit lists {len(subs)} sub-edits for {len(slots)} slots")
        return (("C", tuple((slot, a) for slot, (a, b) in zip(slots, subs))),
                ("C", tuple((slot, b) for slot, (a, b) in zip(slots, subs))))
    if isinstance(e.from_node, gplist.PLISTNode) and isinstance(e, CompoundEdit):
        subs = [s for s in e.edits() if s.from_node is not e.from_node]
        if len(subs) != 1:
            raise TypeError(f"recon: plist wrapper edit lists {len(subs)} root edits")
        a, b = recon(subs[0])
        return ("P", a), ("P", b)
    if isinstance(e, ge.PossibleEdits):
        best = e.best_possibility()
        return recon(best)
    if isinstance(e, CompoundEdit):
        subs = [recon(s) for s in e.edits()]
        A = [a for a, b in subs if a is not ABSENT]
        B = [b for a, b in subs if b is not ABSENT]
        fk = container_kind(e.from_node)
        tk = container_kind(e.to_node) if e.to_node is not None else fk
        if fk is None:
            if len(subs) == 1:      # wrapper collection around a single root edit (plist)
                return subs[0]
            raise TypeError(f"recon: compound edit on {type(e.from_node).__name__}")
        return make_container(fk, A), make_container(tk or fk, B)
    raise TypeError(f"recon: {type(e).__name__}")


# ---------------------------------------------------------------------------------------------
# textbook algorithms
# ---------------------------------------------------------------------------------------------
def lcs_len(s, t) -> int:
    prev = [0] * (len(t) + 1)
    for i in range(1, len(s) + 1):
        cur = [0] * (len(t) + 1)
        si = s[i - 1]
        for j in range(1, len(t) + 1):
            if si == t[j - 1]:
                cur[j] = prev[j - 1] + 1
            else:
                cur[j] = prev[j] if prev[j] >= cur[j - 1] else cur[j - 1]
        prev = cur
    return prev[len(t)]


def levenshtein(s, t) -> int:
    prev = list(range(len(t) + 1))
    for i in range(1, len(s) + 1):
        cur = [i] + [0] * len(t)
        for j in range(1, len(t) + 1):
            cur[j] = min(prev[j] + 1, cur[j - 1] + 1, prev[j - 1] + (s[i - 1] != t[j - 1]))
        prev = cur
    return prev[len(t)]


def brute_assignment(table):
    """Exact optimum of a complete n×m table: maximum cardinality (= min(n,m)), then minimum total.
    Weights are compared as exact rationals."""
    n = len(table)
    m = len(table[0]) if n else 0
    if n == 0 or m == 0:
        return 0, Fraction(0)
    ex = [[_exact(w) for w in row] for row in table]
    best = None
    if n <= m:
        for cols in itertools.permutations(range(m), n):
            tot = sum(ex[i][c] for i, c in enumerate(cols))
            if best is None or tot < best:
                best = tot
    else:
        for rows in itertools.permutations(range(n), m):
            tot = sum(ex[r][j] for j, r in enumerate(rows))
            if best is None or tot < best:
                best = tot
    return min(n, m), best


def _exact(w):
    if isinstance(w, bool):
        return Fraction(int(w))
    return Fraction(w)


# ---------------------------------------------------------------------------------------------
# reading a colour rendering back
# ---------------------------------------------------------------------------------------------
STRIKE, UNDERPLUS = "̶", "̟"


class RenderError(Exception):
    pass


def ansi_decode(text):
    """SGR state machine + combining-mark reader.
    Returns a list of (char, cls, is_separator) with cls in {'common','removed','inserted'}.
    A character is removed if the background is red or it carries U+0336, inserted if the background is green
    or it carries U+031F; conflicting signals raise RenderError.  Text written in cyan foreground on the default
    background is the ' -> ' separator of a replacement."""
    out = []
    fg, bg = None, None
    i, n = 0, len(text)
    while i < n:
        ch = text[i]
        if ch == "\x1b":
            if i + 1 < n and text[i + 1] == "[":
                j = i + 2
                while j < n and (text[j].isdigit() or text[j] == ";"):
                    j += 1
                if j < n and text[j] == "m":
                    codes = [c for c in text[i + 2:j].split(";") if c != ""] or ["0"]
                    for c in codes:
                        c = int(c)
                        if c == 0:
                            fg, bg = None, None
                        elif 30 <= c <= 37 or 90 <= c <= 97:
                            fg = c
                        elif c == 39:
                            fg = None
                        elif 40 <= c <= 47 or 100 <= c <= 107:
                            bg = c
                        elif c == 49:
                            bg = None
                    i = j + 1
                    continue
            raise RenderError(f"raw ESC in output at offset {i}")
        if ch in (STRIKE, UNDERPLUS):
            if not out:
                raise RenderError("combining mark without a base character")
            c0, cls0, sep0, bg0 = out[-1]
            want = "removed" if ch == STRIKE else "inserted"
            if cls0 not in ("common", want):
                raise RenderError(f"conflicting change marks on {c0!r}: background says {cls0}, combining mark says {want}")
            out[-1] = (c0, want, sep0, bg0)
            i += 1
            continue
        if bg in (41, 101):
            cls = "removed"
        elif bg in (42, 102):
            cls = "inserted"
        else:
            cls = "common"
        sep = fg == 36 and bg is None
        out.append((ch, cls, sep, bg if cls != "common" else None))
        i += 1
    return [(c, cls, sep) for c, cls, sep, _ in out]


def project(decoded, drop):
    """Text of one side: drop the characters of class `drop` and the cyan separators."""
    return "".join(c for c, cls, sep in decoded if cls != drop and not (sep and c in " ->"))


def parse_tolerant_json(s):
    """Structural JSON reader that ignores commas and whitespace ('separator placement aside')."""
    import json as _json
    import re
    tok_re = re.compile(r'\s*(?:(?P<str>"(?:[^"\\]|\\.)*")|(?P<num>-?(?:\d+\.?\d*(?:[eE][+-]?\d+)?|Infinity)|NaN)|'
                        r'(?P<lit>true|false|null)|(?P<p>[\[\]{}:,]))', re.S)
    toks = []
    pos = 0
    s = s.strip()
    while pos < len(s):
        m = tok_re.match(s, pos)
        if not m or m.end() == pos:
            if s[pos:].strip() == "":
                break
            raise RenderError(f"unreadable text at offset {pos}: {s[pos:pos + 30]!r}")
        pos = m.end()
        if m.group("str") is not None:
            try:
                toks.append(("v", _json.loads(m.group("str"), strict=False)))
            except ValueError as ex:
                raise RenderError(f"bad string literal {m.group('str')[:40]!r}: {ex}")
        elif m.group("num") is not None:
            toks.append(("v", _json.loads(m.group("num"))))
        elif m.group("lit") is not None:
            toks.append(("v", {"true": True, "false": False, "null": None}[m.group("lit")]))
        elif m.group("p") != ",":
            toks.append(("p", m.group("p")))
    idx = [0]

    def value():
        if idx[0] >= len(toks):
            raise RenderError("unexpected end of text")
        kind, t = toks[idx[0]]
        idx[0] += 1
        if kind == "v":
            return t
        if t == "[":
            arr = []
            while True:
                if idx[0] >= len(toks):
                    raise RenderError("unterminated list")
                if toks[idx[0]] == ("p", "]"):
                    idx[0] += 1
                    return arr
                arr.append(value())
        if t == "{":
            obj = {}
            while True:
                if idx[0] >= len(toks):
                    raise RenderError("unterminated mapping")
                if toks[idx[0]] == ("p", "}"):
                    idx[0] += 1
                    return obj
                k = value()
                if not isinstance(k, str):
                    raise RenderError(f"mapping key is not a string: {k!r}")
                if idx[0] >= len(toks) or toks[idx[0]] != ("p", ":"):
                    raise RenderError(f"missing ':' after key {k!r}")
                idx[0] += 1
                if k in obj:
                    raise RenderError(f"key {k!r} appears twice")
                obj[k] = value()
        raise RenderError(f"unexpected {t!r}")
    v = value()
    if idx[0] != len(toks):
        raise RenderError(f"trailing text after the document: {toks[idx[0]:idx[0] + 3]!r}")
    return v
